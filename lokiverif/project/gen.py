"""
Multi-file Fortran project generator with ground truth (DESIGN 2.6).

A *project description* is plain JSON (all identifiers lower-case):

  {'modules': [module...], 'free': [routine...], 'order': [unit-id...], 'files': [file...],
   'externals': {'calls': [...], 'modules': [...]}}

  module  = {'name', 'vars': [name], 'types': [type], 'interfaces': [iface], 'imports': [imp], 'routines': [routine]}
  type    = {'name', 'members': [{'name', 'type': local type name, 'target': 'mod#type'}],
             'bindings': [{'name', 'proc': name|None, 'generic': [binding names]|None}]}
  iface   = {'name', 'procs': [names of module procedures of the same module]}
  imp     = {'module', 'only': None | [{'local', 'use'}]}       (only=None: unqualified USE)
  routine = {'name', 'kind': 'sub'|'fun'|'rsub'|'tbp'|'rtbp', 'this': type name (tbp only), 'recursive': bool,
             'imports': [imp], 'intfb': [free routine names with an explicit interface block],
             'decls': [{'var', 'type': local type name, 'target': 'mod#type'}],
             'body': [stmt]}
  stmt    = {'k': 'call'|'fcall'|'gcall'|'tbp'|'var'|'xcall', 'name': name as written, 'target': canonical item
             name ('mod#proc', '#proc', 'mod#type%binding', 'mod' for a module variable), 'via': access path,
             'real': bool (gcall resolving to the real-argument specific),
             'var', 'path' (tbp: variable and component/binding path)}
  unit-id = 'm:<module name>' | 'f:<free routine name>'   (order = a topological order, users first)
  file    = {'path': relative path, 'units': [unit-id...]} (units in definition order: providers first)

The renderer turns the description into valid free-form Fortran; every routine has the signature
``(x)`` with ``integer, intent(inout) :: x`` (functions: ``(xin)``; real variants ``(r)``; type-bound
targets ``(this, x)``), so that any call tree can be linked against a generated driver program and run.
Letter case of every identifier occurrence, of keywords and of file suffixes is controlled by a
``casing`` value (JSON), which is how C23 produces case-permuted twins of the same project.
"""
import os
import shutil
import subprocess

from hypothesis import strategies as st

LETTERS = 'abcdefgh'
MOD_NAMES = ['amod', 'b_mod', 'cmod', 'd_mod', 'emod']
VIA_ROUTINE = ['r_only', 'r_rename', 'r_unq']
VIA_MODULE = ['m_only', 'm_rename', 'm_unq']

DEFAULT_PROFILE = {
    'max_modules': 4, 'max_free': 3, 'max_routines': 3,
    'types': True, 'generic_bindings': True, 'interfaces': True, 'functions': True,
    'module_vars': True, 'recursion': True, 'externals': True, 'dupes': True,
    'renames': True, 'unqualified': True, 'intfb': True, 'module_level_imports': True,
    # triggers of listed known findings / observed loki crashes, switched off by construction
    # (see the property modules for the corresponding ctx.exclude counts)
    'unq_generic_specific': False,     # unqualified access to a procedure that is also a specific of a generic interface
    'unq_interface_call': False,       # call of a generic interface reached through an unqualified USE
    'fun_module_level_import': False,   # function whose import sits at module level (regex frontend misses the call)
    'iface_same_module': False,        # generic interface called from a procedure of the defining module
    'iface_module_level_import': False,  # generic interface imported at module level and called in a contained routine
    'fun_calls_fun': False,            # functions calling functions (inline-call chains are only one level deep in loki)
    'fun_unq_import': False,           # function reached through an unqualified USE
    'member_type_unq': False,          # derived-type member whose type is visible through an unqualified USE
    'unq_twice': False,                # the same module USEd unqualified at module and at routine level
    'nested_tbp_unq': False,           # binding of a nested member called on a variable whose type comes from an unqualified USE
    'type_rename': False,              # derived type imported under another name (a full parse resolves the original name)
    'case_twin_files': False,          # two files whose paths differ only in letter case
    'dupes_same_file': False,          # two modules with a same-named procedure in one file
}


BOOST_VIA = {
    'unq_interface_call': ('gcall', ['r_unq', 'm_unq']),
    'iface_module_level_import': ('gcall', ['m_only', 'm_rename']),
    'fun_unq_import': ('fcall', ['r_unq', 'm_unq']),
    'fun_module_level_import': ('fcall', ['m_only', 'm_rename']),
    'type_rename': ('tbp', ['r_rename', 'm_rename']),
    'nested_tbp_unq': ('tbp', ['r_unq', 'm_unq']),
    'unq_generic_specific': ('call', ['r_unq', 'm_unq']),
    'unq_twice': ('any', ['r_unq', 'm_unq']),
    'member_type_unq': ('member', ['m_unq']),
}
BOOST_KIND = {'unq_interface_call': 'gcall', 'iface_same_module': 'gcall', 'iface_module_level_import': 'gcall',
              'fun_unq_import': 'fcall', 'fun_module_level_import': 'fcall', 'fun_calls_fun': 'fcall',
              'type_rename': 'tbp', 'nested_tbp_unq': 'tbp', 'member_type_unq': 'tbp'}


def _prefer(p, kind):
    bv = BOOST_VIA.get(p.get('boost'))
    if bv and bv[0] in (kind, 'any'):
        return bv[1]
    return None


def profile(**kw):
    p = dict(DEFAULT_PROFILE)
    p.update(kw)
    on = [k for k, v in kw.items() if v is True and DEFAULT_PROFILE.get(k) is False]
    if len(on) == 1:
        p['boost'] = on[0]      # make the single extra trigger frequent
    return p


# ---------------------------------------------------------------------------------------------
# generation
# ---------------------------------------------------------------------------------------------

class _Builder:
    def __init__(self, draw, prof):
        self.draw = draw
        self.p = prof
        self.alias_n = 0
        self.no_unq_modules = set()

    def integer(self, lo, hi):
        return self.draw(st.integers(lo, hi))

    def chance(self, num, den=10):
        return self.draw(st.integers(0, den - 1)) < num

    def pick(self, seq):
        return seq[self.draw(st.integers(0, len(seq) - 1))]

    def alias(self, name):
        self.alias_n += 1
        return f'{name}_as{self.alias_n}'


def _add_import(scope, module, local=None, use=None):
    """scope is a module or routine dict; only=None entry means unqualified"""
    for imp in scope['imports']:
        if imp['module'] == module and (imp['only'] is None) == (local is None):
            if local is not None and not any(o['local'] == local for o in imp['only']):
                imp['only'].append({'local': local, 'use': use})
            return
    scope['imports'].append({'module': module, 'only': None if local is None else [{'local': local, 'use': use}]})


@st.composite
def projects(draw, prof=None):
    p = prof or DEFAULT_PROFILE
    b = _Builder(draw, p)
    n_mod = b.integer(1, p['max_modules'])
    n_free = b.integer(0, p['max_free'])
    if n_mod + n_free < 2:
        n_free = 1
    modules = []
    dupe_left = 2 if (p['dupes'] and n_mod >= 2 and b.chance(3)) else 0
    for i in range(n_mod):
        L = LETTERS[i]
        mod = {'name': MOD_NAMES[i], 'vars': [], 'types': [], 'interfaces': [], 'imports': [], 'routines': []}
        for j in range(b.integer(1, p['max_routines'])):
            mod['routines'].append(_new_routine(f'k{L}{j}', 'sub'))
        if dupe_left and b.chance(7):
            mod['routines'].insert(b.integer(0, len(mod['routines'])), _new_routine('kern', 'sub'))
            dupe_left -= 1
        if p['functions'] and b.chance(8 if BOOST_KIND.get(p.get('boost')) == 'fcall' else 4):
            mod['routines'].append(_new_routine(f'f{L}0', 'fun'))
        if p['module_vars']:
            mod['vars'] = [f'nv{L}{j}' for j in range(b.integer(0, 2))]
        if p['types']:
            for j in range(b.integer(0, 2) if b.chance(9 if BOOST_KIND.get(p.get('boost')) == 'tbp' else 6) else 0):
                mod['types'].append({'name': f't{L}{j}', 'members': [], 'bindings': []})
        if p['interfaces'] and b.chance(8 if p.get('boost') in ('unq_interface_call', 'iface_same_module', 'iface_module_level_import', 'unq_generic_specific') else 3):
            subs = [r['name'] for r in mod['routines'] if r['kind'] == 'sub' and r['name'] != 'kern']
            if subs:
                procs = [b.pick(subs)]
                if b.chance(5):
                    mod['routines'].append(_new_routine(f'r{L}0', 'rsub'))
                    procs.append(f'r{L}0')
                mod['interfaces'].append({'name': f'g{L}0', 'procs': procs})
        modules.append(mod)
    free = [_new_routine(f'fr{j}', 'sub') for j in range(n_free)]
    b.no_unq_modules = {m['name'] for m in modules if any(r['name'] == 'kern' for r in m['routines'])}

    # a topological order over units (users first)
    units = [f'm:{m["name"]}' for m in modules] + [f'f:{r["name"]}' for r in free]
    order = list(draw(st.permutations(units)))
    pos = {u: k for k, u in enumerate(order)}
    modmap = {m['name']: m for m in modules}

    # ---- types: members, bindings --------------------------------------------------------------
    for m in modules:
        later_mods = [mm for mm in modules if pos[f'm:{mm["name"]}'] > pos[f'm:{m["name"]}']]
        for ti, t in enumerate(m['types']):
            # members of (earlier types of the same module | types of later modules)
            cands = [(m['name'], tt['name']) for tt in m['types'][:ti]]
            cands += [(mm['name'], tt['name']) for mm in later_mods for tt in mm['types']]
            if cands and b.chance(9 if p.get('boost') in ('member_type_unq', 'nested_tbp_unq') else 5):
                tm, tn = b.pick(cands)
                local = tn
                if tm != m['name']:
                    via = _pick_via(b, p, in_module=True, module_only=True, tm=tm, is_type=True,
                                    no_unq=not p['member_type_unq'], prefer=_prefer(p, 'member'))
                    local = _import_entity(b, m, None, tm, tn, via)
                t['members'].append({'name': f'c{len(t["members"])}', 'type': local, 'target': f'{tm}#{tn}'})
            nb = b.integer(0, 2)
            L = t['name'][1]
            for j in range(nb):
                if b.chance(5):
                    pname = f'p{L}{ti}{j}'
                    t['bindings'].append({'name': pname, 'proc': None, 'generic': None})
                else:
                    pname = f'p{L}{ti}{j}'
                    t['bindings'].append({'name': f'go{j}', 'proc': pname, 'generic': None})
                r = _new_routine(pname, 'tbp')
                r['this'] = t['name']
                m['routines'].append(r)
            if p['generic_bindings'] and nb >= 1 and b.chance(3):
                pname = f'q{L}{ti}'
                t['bindings'].append({'name': pname, 'proc': None, 'generic': None})
                r = _new_routine(pname, 'rtbp')
                r['this'] = t['name']
                m['routines'].append(r)
                t['bindings'].append({'name': 'gen', 'proc': None,
                                      'generic': [t['bindings'][0]['name'], pname]})

    # ---- references --------------------------------------------------------------------------------
    ext_calls, ext_mods = [], []
    specifics = {(m['name'], pn) for m in modules for i in m['interfaces'] for pn in i['procs']}

    def routine_refs(r, m, ridx):
        """draw references of routine r (in module m or free)"""
        upos = pos[f'm:{m["name"]}'] if m else pos[f'f:{r["name"]}']
        later = [mm for mm in modules if pos[f'm:{mm["name"]}'] > upos]
        later_free = [fr for fr in free if pos[f'f:{fr["name"]}'] > upos]
        own_later = m['routines'][ridx + 1:] if m else []
        subs = [(None, fr['name']) for fr in later_free]
        subs += [(m['name'], rr['name']) for rr in own_later if rr['kind'] == 'sub']
        subs += [(mm['name'], rr['name']) for mm in later for rr in mm['routines'] if rr['kind'] == 'sub']
        funs = [(m['name'], rr['name']) for rr in own_later if rr['kind'] == 'fun']
        funs += [(mm['name'], rr['name']) for mm in later for rr in mm['routines'] if rr['kind'] == 'fun']
        gens = [(mm['name'], i['name'], i['procs']) for mm in later for i in mm['interfaces']]
        if m and p['iface_same_module']:
            idx_ = {rr['name']: qi for qi, rr in enumerate(m['routines'])}
            gens += [(m['name'], i['name'], i['procs']) for i in m['interfaces']
                     if all(idx_[pn] > ridx for pn in i['procs'])]
        types = [(mm['name'], t) for mm in ([m] if m else []) + later for t in mm['types']]
        mvars = [(mm['name'], v) for mm in later for v in mm['vars']]
        is_fun = r['kind'] == 'fun'
        n = b.integer(0, 3)
        if n == 0 and (subs or funs) and b.chance(6):
            n = 1
        nobj = 0
        for _ in range(n):
            kinds = []
            if subs and not is_fun:
                kinds += ['call'] * 4
            if funs and (not is_fun or p['fun_calls_fun']):
                kinds += ['fcall'] * 2
            if gens and not is_fun:
                kinds += ['gcall']
            if types and not is_fun:
                kinds += ['tbp'] * 2
            if mvars:
                kinds += ['var']
            if p['externals'] and not is_fun:
                kinds += ['xcall'] if b.chance(2) else []
            if not kinds:
                break
            bk = BOOST_KIND.get(p.get('boost'))
            if bk in kinds:
                kinds += [bk] * 8
            k = b.pick(kinds)
            in_module = m is not None
            if k == 'call':
                tm, tn = b.pick(subs)
                if tm is None:
                    via = 'intfb' if (p['intfb'] and b.chance(4)) else 'implicit'
                    if via == 'intfb' and tn not in r['intfb']:
                        r['intfb'].append(tn)
                    r['body'].append({'k': 'call', 'name': tn, 'target': f'#{tn}', 'via': via})
                elif m is not None and tm == m['name']:
                    r['body'].append({'k': 'call', 'name': tn, 'target': f'{tm}#{tn}', 'via': 'same'})
                else:
                    via = _pick_via(b, p, in_module, force_rename=(tn == 'kern'),
                                    no_unq=((tm, tn) in specifics and not p['unq_generic_specific']), tm=tm,
                                    prefer=_prefer(p, 'call'))
                    local = _import_entity(b, m, r, tm, tn, via)
                    r['body'].append({'k': 'call', 'name': local, 'target': f'{tm}#{tn}', 'via': via})
            elif k == 'fcall':
                tm, tn = b.pick(funs)
                if m is not None and tm == m['name']:
                    r['body'].append({'k': 'fcall', 'name': tn, 'target': f'{tm}#{tn}', 'via': 'same'})
                else:
                    via = _pick_via(b, p, in_module, routine_only=not p['fun_module_level_import'], tm=tm,
                                    no_unq=not p['fun_unq_import'], prefer=_prefer(p, 'fcall'))
                    local = _import_entity(b, m, r, tm, tn, via)
                    r['body'].append({'k': 'fcall', 'name': local, 'target': f'{tm}#{tn}', 'via': via})
            elif k == 'gcall':
                own_g = [g_ for g_ in gens if m is not None and g_[0] == m['name']]
                tm, tn, procs = b.pick(own_g if (own_g and p.get('boost') == 'iface_same_module') else gens)
                real = len(procs) > 1 and b.chance(5)
                if m is not None and tm == m['name']:
                    r['body'].append({'k': 'gcall', 'name': tn, 'target': f'{tm}#{tn}', 'via': 'same', 'real': real})
                else:
                    via = _pick_via(b, p, in_module, no_unq=not p['unq_interface_call'], tm=tm,
                                    routine_only=not p['iface_module_level_import'], prefer=_prefer(p, 'gcall'))
                    local = _import_entity(b, m, r, tm, tn, via)
                    r['body'].append({'k': 'gcall', 'name': local, 'target': f'{tm}#{tn}', 'via': via, 'real': real})
            elif k == 'tbp':
                tm, t = b.pick(types)
                if m is not None and tm == m['name']:
                    local, via = t['name'], 'same'
                else:
                    via = _pick_via(b, p, in_module, tm=tm, is_type=True, prefer=_prefer(p, 'tbp'))
                    local = _import_entity(b, m, r, tm, t['name'], via)
                var = f'o{nobj}'
                nobj += 1
                r['decls'].append({'var': var, 'type': local, 'target': f'{tm}#{t["name"]}', 'via': via})
                # walk members to a type with bindings
                path, cur_m, cur_t = [], tm, t
                for _depth in range(2):
                    if via.endswith('_unq') and not p['nested_tbp_unq']:
                        break
                    if cur_t['members'] and (not cur_t['bindings'] or b.chance(4)):
                        mem = cur_t['members'][0]
                        path.append(mem['name'])
                        cur_m, tname = mem['target'].split('#')
                        cur_t = next(tt for tt in modmap[cur_m]['types'] if tt['name'] == tname)
                    else:
                        break
                own_idx = {rr['name']: qi for qi, rr in enumerate(m['routines'])} if m else {}

                def allowed(bnd_, mod_, typ_):
                    if not m or mod_ != m['name']:
                        return True
                    names_ = bnd_['generic'] or [bnd_['name']]
                    for bn_ in names_:
                        bb_ = next(x_ for x_ in typ_['bindings'] if x_['name'] == bn_)
                        if own_idx.get(bb_['proc'] or bb_['name'], -1) <= ridx:
                            return False
                    return True
                ok_bindings = [bnd_ for bnd_ in cur_t['bindings'] if allowed(bnd_, cur_m, cur_t)]
                if ok_bindings:
                    bnd = b.pick(ok_bindings)
                    real = False
                    if bnd['generic']:
                        real = b.chance(5)
                    elif _binding_proc_kind(modmap[cur_m], bnd) == 'rtbp':
                        real = True
                    r['body'].append({'k': 'tbp', 'var': var, 'path': path + [bnd['name']],
                                      'target': f'{tm}#{t["name"]}%' + '%'.join(path + [bnd['name']]),
                                      'via': via, 'real': real})
            elif k == 'var':
                tm, vn = b.pick(mvars)
                via = _pick_via(b, p, in_module, tm=tm)
                local = _import_entity(b, m, r, tm, vn, via)
                r['body'].append({'k': 'var', 'name': local, 'target': tm, 'via': via})
            elif k == 'xcall':
                name = f'xt{len(ext_calls) % 2}'
                if name not in ext_calls:
                    ext_calls.append(name)
                r['body'].append({'k': 'xcall', 'name': name, 'target': f'#{name}', 'via': 'implicit'})
        # recursion
        if p['recursion'] and r['kind'] in ('sub',) and b.chance(1):
            r['recursive'] = True
            r['body'].append({'k': 'call', 'name': r['name'], 'target': f'{m["name"] if m else ""}#{r["name"]}',
                              'via': 'self'})

    for m in modules:
        for ridx, r in enumerate(m['routines']):
            routine_refs(r, m, ridx)
        # mutual recursion inside a module: a later plain sub calls an earlier one, both RECURSIVE
        plain = [r for r in m['routines'] if r['kind'] == 'sub']
        if p['recursion'] and len(plain) >= 2 and b.chance(1):
            a, c = plain[0], plain[-1]
            if any(s['k'] == 'call' and s['target'] == f'{m["name"]}#{c["name"]}' for s in a['body']):
                a['recursive'] = c['recursive'] = True
                c['body'].append({'k': 'call', 'name': a['name'], 'target': f'{m["name"]}#{a["name"]}', 'via': 'back'})
                for r in plain[1:-1]:
                    r['recursive'] = True
    for r in free:
        routine_refs(r, None, 0)
    # mutual recursion between two FREE functions that declare each other in interface blocks (opt-in profile key:
    # no draw for the other profiles); both live in one dedicated file, appended after the files are built
    ffr = bool(p.get('free_fun_cycle') and p['recursion'] and b.chance(3))

    if not p['unq_twice']:
        for m in modules:
            m_unq = {imp['module'] for imp in m['imports'] if imp['only'] is None}
            for r in m['routines']:
                r['imports'] = [imp for imp in r['imports'] if not (imp['only'] is None and imp['module'] in m_unq)]

    # ---- files ---------------------------------------------------------------------------------------
    # files hold contiguous chunks of the topological order, so that the file graph is acyclic too
    n_units = len(order)
    n_files = b.integer(min(2, n_units), min(8, n_units))
    cuts = sorted(set(draw(st.lists(st.integers(1, n_units - 1), min_size=n_files - 1, max_size=n_files - 1)))) \
        if n_units > 1 else []
    if not p.get('dupes_same_file'):
        # two modules defining a same-named procedure never share a file (listed finding of C21:
        # Item.ir looks the local name up in the whole Sourcefile)
        kpos = sorted(pos[f'm:{mn}'] for mn in b.no_unq_modules)
        if len(kpos) == 2 and not any(kpos[0] < c <= kpos[1] for c in cuts):
            cuts = sorted(set(cuts + [kpos[1]]))
    bounds = [0] + cuts + [n_units]
    files = []
    for k in range(len(bounds) - 1):
        us = list(reversed(order[bounds[k]:bounds[k + 1]]))     # providers first
        base = us[-1].split(':', 1)[1]
        sub = ['', 'sub/', 'src/'][b.integer(0, 2)]
        suffix = ['.f90', '.F90'][b.integer(0, 1)]
        files.append({'path': f'{sub}{base}{suffix}', 'units': us})
    if p['case_twin_files'] and len(files) >= 2 and b.chance(3):
        # second file gets the first one's path in another letter case
        d, fn = os.path.split(files[0]['path'])
        stem, suf = os.path.splitext(fn)
        files[1]['path'] = os.path.join(d, stem.upper() + suf)
    if ffr:
        for a, c, via in (('ffr0', 'ffr1', 'intfb'), ('ffr1', 'ffr0', 'back')):
            r = _new_routine(a, 'fun')
            r['recursive'] = True
            r['intfb'] = [c]
            r['body'] = [{'k': 'fcall', 'name': c, 'target': f'#{c}', 'via': via}]
            free.append(r)
        order = ['f:ffr0', 'f:ffr1'] + order
        files.append({'path': 'ffr0.f90', 'units': ['f:ffr1', 'f:ffr0']})
    return {'modules': modules, 'free': free, 'order': order, 'files': files,
            'externals': {'calls': ext_calls, 'modules': ext_mods}}


def _new_routine(name, kind):
    return {'name': name, 'kind': kind, 'recursive': False, 'imports': [], 'intfb': [], 'decls': [], 'body': []}


def _binding_proc_kind(mod, bnd):
    pname = bnd['proc'] or bnd['name']
    for r in mod['routines']:
        if r['name'] == pname:
            return r['kind']
    return None


def _pick_via(b, p, in_module, force_rename=False, no_unq=False, module_only=False, routine_only=False, tm=None,
              is_type=False, prefer=None):
    no_unq = no_unq or tm in b.no_unq_modules
    opts = []
    no_rename = is_type and not p['type_rename']
    if not module_only:
        opts += ['r_only', 'r_only']
        if p['renames'] and not no_rename:
            opts += ['r_rename']
        if p['unqualified'] and not no_unq:
            opts += ['r_unq']
    if in_module and p['module_level_imports'] and not routine_only or module_only:
        opts += ['m_only']
        if p['renames'] and not no_rename:
            opts += ['m_rename']
        if p['unqualified'] and not no_unq:
            opts += ['m_unq']
    if force_rename:
        opts = [o for o in opts if o.endswith('rename')] or (['m_rename'] if module_only else ['r_rename'])
    pref = [o for o in opts if o in (prefer or ())]
    if pref and b.chance(8):
        return b.pick(pref)
    return b.pick(opts)


def _import_entity(b, m, r, tm, tn, via):
    """register the import that makes entity tn of module tm visible; returns the local name"""
    scope = r if via.startswith('r_') else m
    alias = None
    has_unq = False
    for imp in scope['imports']:
        if imp['module'] == tm:
            if imp['only'] is None:
                has_unq = True
            else:
                for o in imp['only']:
                    if o['use'] == tn and o['local'] != tn:
                        alias = o['local']
    if via.endswith('_unq'):
        # an entity renamed in the same scoping unit is not accessible under its own name through a blanket USE
        if alias:
            return alias
        _add_import(scope, tm)
        return tn
    if via.endswith('_rename'):
        if alias:
            return alias
        if has_unq:
            # keep the blanket USE usable for this name (a qualified import on top keeps loki on the
            # qualified lookup path)
            _add_import(scope, tm, tn, tn)
            return tn
        local = b.alias(tn)
        _add_import(scope, tm, local, tn)
        return local
    _add_import(scope, tm, tn, tn)
    return tn


# ---------------------------------------------------------------------------------------------
# queries on descriptions
# ---------------------------------------------------------------------------------------------

def all_routines(proj):
    """[(module name or '', routine)]"""
    out = [(m['name'], r) for m in proj['modules'] for r in m['routines']]
    out += [('', r) for r in proj['free']]
    return out


def routine_names(proj):
    return [f'{mn}#{r["name"]}' for mn, r in all_routines(proj)]


def callable_seeds(proj):
    """plain (x)-signature subroutines that a driver program can call"""
    return [f'{mn}#{r["name"]}' for mn, r in all_routines(proj) if r['kind'] == 'sub']


def unit_file(proj):
    return {u: f['path'] for f in proj['files'] for u in f['units']}


# ---------------------------------------------------------------------------------------------
# rendering
# ---------------------------------------------------------------------------------------------

class Casing:
    """
    Deterministic letter-case permutation. ``spec`` = None (all lower-case) or
    {'ids': [ints], 'kw': 0|1|2, 'suffix': [ints]}: the k-th identifier occurrence of name N uses the
    bit pattern ids[(k + hash-free index of N) % len]: bit i upper-cases character i.
    """

    def __init__(self, spec=None):
        self.spec = spec
        self.k = 0

    def id(self, name):
        if not self.spec or not self.spec.get('ids'):
            return name
        ids = self.spec['ids']
        bits = ids[self.k % len(ids)]
        self.k += 1
        if bits == 0:
            return name
        return ''.join(c.upper() if (bits >> (i % 16)) & 1 else c for i, c in enumerate(name))

    def kw(self, word):
        mode = (self.spec or {}).get('kw', 0)
        if mode == 1:
            return word.upper()
        if mode == 2:
            return word.capitalize()
        return word

    def path(self, path, k):
        sfx = (self.spec or {}).get('suffix') or [0]
        d, fn = os.path.split(path)
        stem, suf = os.path.splitext(fn)
        bits = sfx[k % len(sfx)]
        if bits & 1:
            suf = suf.swapcase()
        return os.path.join(d, stem + suf)


def casings():
    return st.fixed_dictionaries({
        'ids': st.lists(st.integers(0, 2 ** 12 - 1), min_size=1, max_size=7),
        'kw': st.integers(0, 2),
        'suffix': st.lists(st.integers(0, 1), min_size=1, max_size=3),
    })


def _render_imports(scope, cs, ind):
    out = []
    for imp in scope['imports']:
        if imp['only'] is None:
            out.append(f'{ind}{cs.kw("use")} {cs.id(imp["module"])}')
        else:
            syms = ', '.join(cs.id(o['local']) if o['local'] == o['use'] else f'{cs.id(o["local"])} => {cs.id(o["use"])}'
                             for o in imp['only'])
            out.append(f'{ind}{cs.kw("use")} {cs.id(imp["module"])}, {cs.kw("only")}: {syms}')
    return out


def _render_routine(r, cs, ind, ext_modules=()):
    kw, I = cs.kw, cs.id
    k = r['kind']
    name = r['name']
    pre = f'{kw("recursive")} ' if r['recursive'] else ''
    L = []
    if k == 'fun':
        L.append(f'{ind}{pre}{kw("integer")} {kw("function")} {I(name)}(xin)')
    elif k in ('tbp', 'rtbp'):
        L.append(f'{ind}{pre}{kw("subroutine")} {I(name)}(this, {"r" if k == "rtbp" else "x"})')
    elif k == 'rsub':
        L.append(f'{ind}{pre}{kw("subroutine")} {I(name)}(r)')
    else:
        L.append(f'{ind}{pre}{kw("subroutine")} {I(name)}(x)')
    i2 = ind + '  '
    L += _render_imports(r, cs, i2)
    L.append(f'{i2}{kw("implicit none")}')
    if k in ('tbp', 'rtbp'):
        L.append(f'{i2}{kw("class")}({I(r["this"])}), {kw("intent")}(inout) :: this')
    if k == 'fun':
        L.append(f'{i2}{kw("integer")}, {kw("intent")}(in) :: xin')
        L.append(f'{i2}{kw("integer")} :: x')
    elif k in ('rsub', 'rtbp'):
        L.append(f'{i2}{kw("real")}, {kw("intent")}(inout) :: r')
        L.append(f'{i2}{kw("integer")} :: x')
    else:
        L.append(f'{i2}{kw("integer")}, {kw("intent")}(inout) :: x')
    needs_r = any(s.get('real') for s in r['body']) and k not in ('rsub', 'rtbp')
    if needs_r:
        L.append(f'{i2}{kw("real")} :: r')
    for d in r['decls']:
        L.append(f'{i2}{kw("type")}({I(d["type"])}) :: {d["var"]}')
    for fn in r['intfb']:
        L.append(f'{i2}{kw("interface")}')
        if fn.startswith('ffr'):        # the free functions of the free_fun_cycle shape
            L.append(f'{i2}  {kw("integer")} {kw("function")} {I(fn)}(xin)')
            L.append(f'{i2}    {kw("integer")}, {kw("intent")}(in) :: xin')
            L.append(f'{i2}  {kw("end function")} {I(fn)}')
            L.append(f'{i2}{kw("end interface")}')
            continue
        L.append(f'{i2}  {kw("subroutine")} {I(fn)}(x)')
        L.append(f'{i2}    {kw("integer")}, {kw("intent")}(inout) :: x')
        L.append(f'{i2}  {kw("end subroutine")} {I(fn)}')
        L.append(f'{i2}{kw("end interface")}')
    # body
    if k == 'fun':
        L.append(f'{i2}x = xin + 1')
    elif k in ('rsub', 'rtbp'):
        L.append(f'{i2}x = {kw("int")}(r)')
        L.append(f'{i2}r = r + 1.0')
    else:
        L.append(f'{i2}x = x + 1')
    if k in ('tbp', 'rtbp'):
        L.append(f'{i2}x = x + this%n')
    for s in r['body']:
        sk = s['k']
        if sk in ('call', 'xcall'):
            if s.get('via') in ('self', 'back'):
                L.append(f'{i2}{kw("if")} (x < -1000) {kw("call")} {I(s["name"])}(x)')
            else:
                L.append(f'{i2}{kw("call")} {I(s["name"])}(x)')
        elif sk == 'fcall':
            if s.get('via') == 'back':
                L.append(f'{i2}{kw("if")} (x < -1000) x = x + {I(s["name"])}(x)')
            else:
                L.append(f'{i2}x = x + {I(s["name"])}(x)')
        elif sk == 'gcall':
            if s.get('real'):
                L.append(f'{i2}r = {kw("real")}(x)')
                L.append(f'{i2}{kw("call")} {I(s["name"])}(r)')
            else:
                L.append(f'{i2}{kw("call")} {I(s["name"])}(x)')
        elif sk == 'tbp':
            ref = '%'.join([s['var']] + [I(c) for c in s['path']])
            if s.get('real'):
                L.append(f'{i2}r = {kw("real")}(x)')
                L.append(f'{i2}{kw("call")} {ref}(r)')
            else:
                L.append(f'{i2}{kw("call")} {ref}(x)')
        elif sk == 'var':
            L.append(f'{i2}x = x + {I(s["name"])}')
    if k == 'fun':
        L.append(f'{i2}{I(name)} = x')
        L.append(f'{ind}{kw("end function")} {I(name)}')
    else:
        L.append(f'{ind}{kw("end subroutine")} {I(name)}')
    return L


def _render_module(m, cs):
    kw, I = cs.kw, cs.id
    L = [f'{kw("module")} {I(m["name"])}']
    L += _render_imports(m, cs, '  ')
    L.append(f'  {kw("implicit none")}')
    for k, v in enumerate(m['vars']):
        L.append(f'  {kw("integer")} :: {I(v)} = {k + 2}')
    for t in m['types']:
        L.append(f'  {kw("type")} {I(t["name"])}')
        L.append(f'    {kw("integer")} :: n = 1')
        for mem in t['members']:
            L.append(f'    {kw("type")}({I(mem["type"])}) :: {I(mem["name"])}')
        if t['bindings']:
            L.append(f'  {kw("contains")}')
            for bnd in t['bindings']:
                if bnd['generic']:
                    L.append(f'    {kw("generic")} :: {I(bnd["name"])} => ' + ', '.join(I(g) for g in bnd['generic']))
                elif bnd['proc']:
                    L.append(f'    {kw("procedure")} :: {I(bnd["name"])} => {I(bnd["proc"])}')
                else:
                    L.append(f'    {kw("procedure")} :: {I(bnd["name"])}')
        L.append(f'  {kw("end type")} {I(t["name"])}')
    for i in m['interfaces']:
        L.append(f'  {kw("interface")} {I(i["name"])}')
        L.append(f'    {kw("module procedure")} ' + ', '.join(I(pn) for pn in i['procs']))
        L.append(f'  {kw("end interface")} {I(i["name"])}')
    L.append(f'{kw("contains")}')
    for r in m['routines']:
        L += _render_routine(r, cs, '  ')
    L.append(f'{kw("end module")} {I(m["name"])}')
    return L


def render(proj, casing=None):
    """-> ordered dict relpath -> text"""
    cs = Casing(casing)
    modmap = {m['name']: m for m in proj['modules']}
    freemap = {r['name']: r for r in proj['free']}
    out = {}
    for k, f in enumerate(proj['files']):
        L = []
        for u in f['units']:
            kind, name = u.split(':', 1)
            if kind == 'm':
                L += _render_module(modmap[name], cs)
            else:
                L += _render_routine(freemap[name], cs, '')
            L.append('')
        out[cs.path(f['path'], k)] = '\n'.join(L)
    return out


def driver_text(proj, seeds, extra_uses=()):
    """a PROGRAM calling every seed ('mod#name' or '#name', plain (x) subroutines). Never goes through loki."""
    L = ['program lokiverif_main']
    for s in seeds:
        mn, rn = s.split('#')
        if mn:
            L.append(f'  use {mn}, only: {rn}')
    L.append('  implicit none')
    L.append('  integer :: x')
    L.append('  x = 0')
    for s in seeds:
        L.append(f'  call {s.split("#")[1]}(x)')
    L.append("  print '(i0)', x")
    L.append('end program lokiverif_main')
    return '\n'.join(L) + '\n'


def stubs_text(proj):
    """definitions of the external (missing) callees so that a project with externals can still be linked"""
    L = []
    for name in proj['externals']['calls']:
        L += [f'subroutine {name}(x)', '  integer, intent(inout) :: x', '  x = x + 1', f'end subroutine {name}', '']
    return '\n'.join(L)


# ---------------------------------------------------------------------------------------------
# materialisation, compilation
# ---------------------------------------------------------------------------------------------

_counter = [0]


def scratch_dir(label='proj'):
    root = os.environ.get('LOKIVERIF_SCRATCH') or os.path.join('/tmp', f'lokiverif.{os.getpid()}')
    _counter[0] += 1
    d = os.path.join(root, f'{label}{os.getpid()}_{_counter[0]}')
    os.makedirs(d, exist_ok=True)
    return d


def materialize(files, root):
    paths = []
    for rel, text in files.items():
        pth = os.path.join(root, rel)
        os.makedirs(os.path.dirname(pth), exist_ok=True)
        with open(pth, 'w') as f:
            f.write(text)
        paths.append(pth)
    return paths


def cleanup(d):
    shutil.rmtree(d, ignore_errors=True)


import re as _re
_re_mod = _re.compile(r'^\s*module\s+(?!procedure\b)(\w+)\s*$', _re.I | _re.M)
_re_use = _re.compile(r'^\s*use\s*(?:,\s*\w+\s*)?(?:::)?\s*(\w+)', _re.I | _re.M)


def compile_order(paths):
    """topological order of source files by the modules they define/use (text scan)"""
    defines, uses = {}, {}
    for pth in paths:
        with open(pth) as f:
            txt = f.read()
        for m in _re_mod.findall(txt):
            defines[m.lower()] = pth
        uses[pth] = {u.lower() for u in _re_use.findall(txt)}
    order, done, visiting = [], set(), set()

    def visit(pth):
        if pth in done:
            return
        if pth in visiting:
            return
        visiting.add(pth)
        for u in sorted(uses[pth]):
            dp = defines.get(u)
            if dp and dp != pth:
                visit(dp)
        done.add(pth)
        order.append(pth)

    for pth in sorted(paths):
        visit(pth)
    return order


def build_and_run(paths, builddir, run=True, timeout=60):
    """compile (in module order) + link + run; -> (ok, stage, output)"""
    os.makedirs(builddir, exist_ok=True)
    objs = []
    for k, pth in enumerate(compile_order(paths)):
        obj = os.path.join(builddir, f'o{k}.o')
        cmd = ['gfortran', '-ffree-form', '-c', pth, '-o', obj, '-J', builddir, '-I', builddir]
        pr = subprocess.run(cmd, capture_output=True, text=True, timeout=timeout)
        if pr.returncode != 0:
            return False, 'compile', f'{os.path.basename(pth)}: {pr.stderr[-1500:]}'
        objs.append(obj)
    exe = os.path.join(builddir, 'main.x')
    pr = subprocess.run(['gfortran'] + objs + ['-o', exe], capture_output=True, text=True, timeout=timeout)
    if pr.returncode != 0:
        return False, 'link', pr.stderr[-1500:]
    if not run:
        return True, 'link', ''
    pr = subprocess.run([exe], capture_output=True, text=True, timeout=timeout)
    if pr.returncode != 0:
        return False, 'run', pr.stderr[-500:]
    return True, 'run', pr.stdout.strip()


# ---------------------------------------------------------------------------------------------
# configurations
# ---------------------------------------------------------------------------------------------

def _key_forms(b, mn, rn, proj, patterns=True):
    """one spelling of a config key that matches item mn#rn"""
    forms = ['plain', 'scoped']
    if patterns:
        forms += ['pat_local', 'pat_scoped']
    f = b.pick(forms)
    if f == 'plain':
        return rn
    if f == 'scoped':
        return f'{mn}#{rn}'
    if f == 'pat_local':
        return rn[:-1] + '*' if len(rn) > 2 else rn + '*'
    return f'{mn}#{rn[:2]}*'


@st.composite
def configs(draw, proj, prof=None, n_seeds=(1, 2), allow_prune=True, strict=None, seeds_from=None, safe=True):
    """
    SchedulerConfig dict + seeds for ``proj``:
    {'config': {...}, 'seeds': [...]}  (seed spellings: plain or scope#name)
    """
    b = _Builder(draw, prof or DEFAULT_PROFILE)
    routines = all_routines(proj)
    cands = seeds_from or [f'{mn}#{r["name"]}' for mn, r in routines if r['kind'] in ('sub',)]
    # prefer roots: routines of early units
    pos = {u: k for k, u in enumerate(proj['order'])}

    def upos(full):
        mn, rn = full.split('#')
        return pos[f'm:{mn}'] if mn else pos[f'f:{rn}']
    cands = sorted(cands, key=lambda c: (upos(c), c))
    ns = b.integer(n_seeds[0], min(n_seeds[1], len(cands)))
    seeds_full = []
    for _ in range(ns):
        # geometric-ish preference for the first candidates
        k = min(b.integer(0, len(cands) - 1), b.integer(0, len(cands) - 1))
        if cands[k] not in seeds_full:
            seeds_full.append(cands[k])
    local_count = {}
    for mn, r in routines:
        local_count[r['name']] = local_count.get(r['name'], 0) + 1
    seeds = []
    for s in seeds_full:
        mn, rn = s.split('#')
        if local_count[rn] > 1 or b.chance(4):
            seeds.append(s)
        else:
            seeds.append(rn)
    has_ext = bool(proj['externals']['calls'] or proj['externals']['modules'])
    if strict is None:
        strict = False if has_ext else b.chance(3)
    default = {'role': 'kernel', 'expand': True, 'strict': strict, 'mode': b.pick(['idem', 'm-one']),
               'enable_imports': b.chance(5)}
    rconf = {}
    if allow_prune:
        names = [(mn, r['name']) for mn, r in routines]
        modnames = [m['name'] for m in proj['modules']]

        from .refgraph import match_keys
        # procedures reached through an unqualified USE somewhere: loki applies disable/block entries to them
        # only in the plain and scope#name forms (listed findings of C21); `safe` keeps other forms away
        unq_targets = sorted({s_['target'] for _, r_ in routines for s_ in r_['body']
                              if s_.get('via', '').endswith('_unq') and s_['k'] in ('call', 'fcall', 'gcall', 'tbp')}
                             | {d_['target'] for _, r_ in routines for d_ in r_['decls']
                                if d_.get('via', '').endswith('_unq')})

        def unsafe(key, kind):
            if not safe:
                return False
            hit = [t for t in unq_targets if match_keys(t, [key], patterns=True, parents=True)]
            if not hit:
                return False
            if kind == 'global-disable':
                return True
            return any(not match_keys(t, [key]) for t in hit)

        def keylist(maxn, patterns=True, with_modules=True, kind='item'):
            out = _keylist(maxn, patterns, with_modules)
            return [k for k in out if not unsafe(k, kind)]

        def _keylist(maxn, patterns=True, with_modules=True):
            out = []
            for _ in range(b.integer(1, maxn)):
                if with_modules and modnames and b.chance(2):
                    out.append(b.pick(modnames))
                else:
                    mn, rn = b.pick(names)
                    out.append(_key_forms(b, mn, rn, proj, patterns))
            return sorted(set(out))
        if b.chance(3):
            # a configuration that disables its own seeds is outside the domain (nothing to process)
            dis = [k for k in keylist(2, kind='global-disable')
                   if not any(match_keys(sf, [k], patterns=True, parents=True) for sf in seeds_full)]
            if dis:
                default['disable'] = dis
        if b.chance(2):
            default['block'] = keylist(2)
        if b.chance(2):
            default['ignore'] = keylist(2, patterns=False)
        for k_ in ('block', 'ignore'):
            if k_ in default and not default[k_]:
                del default[k_]
        # directed pruning: switch off / ignore an actual dependency of an actual caller
        call_edges = sorted({(f'{mn_}#{r_["name"]}', s_['target']) for mn_, r_ in routines for s_ in r_['body']
                             if s_['k'] in ('call', 'tbp', 'gcall') and s_.get('via') not in ('self', 'back')})
        if call_edges:
            for _ in range(b.integer(0, 2)):
                caller, callee = b.pick(call_edges)
                what = b.pick(['ignore', 'ignore', 'block', 'disable'])
                cmn, crn = callee.split('#')
                key = crn if b.chance(5) else callee
                if '%' in crn:
                    key = b.pick([crn, callee, crn.split('%')[0]])
                if unsafe(key, 'item'):
                    continue
                if b.chance(4):
                    if what != 'disable':
                        default.setdefault(what, [])
                        if key not in default[what]:
                            default[what] = sorted(default[what] + [key])
                else:
                    ckey = caller.split('#')[1] if local_count.get(caller.split('#')[1], 0) == 1 else caller
                    ent = rconf.setdefault(ckey, {})
                    if key not in ent.get(what, []):
                        ent[what] = sorted(ent.get(what, []) + [key])
        used = {k.split('#')[-1] for k in rconf}
        for _ in range(b.integer(0, 3)):
            mn, rn = b.pick(names)
            if rn in used:
                continue
            used.add(rn)
            key = rn if (local_count[rn] == 1 and b.chance(6)) else f'{mn}#{rn}'
            ent = {}
            if b.chance(3):
                ent['role'] = 'driver'
            if b.chance(2):
                ent['expand'] = False
            if b.chance(3):
                ent['block'] = keylist(2)
            if b.chance(3):
                ent['ignore'] = keylist(2, patterns=False)
            if b.chance(2):
                ent['disable'] = keylist(2)
            if b.chance(2):
                ent['mode'] = 'other'
            if b.chance(2):
                ent['replicate'] = True
            for k_ in ('block', 'ignore', 'disable'):
                if k_ in ent and not ent[k_]:
                    del ent[k_]
            if ent:
                rconf[key] = ent
    return {'config': {'default': default, 'routines': rconf}, 'seeds': seeds}


# ---------------------------------------------------------------------------------------------
# self test
# ---------------------------------------------------------------------------------------------

def selftest(n=60, seed=1, verbose=False, prof=None):
    """generate n projects, compile + link + run each against a driver that calls every (x)-subroutine"""
    import hypothesis
    from hypothesis import given, settings, HealthCheck, Phase
    stats = {'n': 0, 'fail': 0, 'units': 0, 'files': 0}
    failures = []
    prof = prof or profile(externals=True)

    @hypothesis.seed(seed)
    @settings(max_examples=n, database=None, deadline=None, suppress_health_check=list(HealthCheck),
              phases=[Phase.generate])
    @given(st.data())
    def run(data):
        proj = data.draw(projects(prof))
        casing = data.draw(st.one_of(st.none(), casings()))
        d = scratch_dir('selftest')
        try:
            files = render(proj, casing)
            paths = materialize(files, os.path.join(d, 'src'))
            seeds = callable_seeds(proj)
            # a module procedure named 'kern' may exist twice: call only the first
            seen, uniq = set(), []
            for s in seeds:
                if s.split('#')[1] not in seen:
                    seen.add(s.split('#')[1])
                    uniq.append(s)
            with open(os.path.join(d, 'main_driver.f90'), 'w') as f:
                f.write(driver_text(proj, uniq))
            extra = [os.path.join(d, 'main_driver.f90')]
            if proj['externals']['calls']:
                with open(os.path.join(d, 'stubs.f90'), 'w') as f:
                    f.write(stubs_text(proj))
                extra.append(os.path.join(d, 'stubs.f90'))
            ok, stage, out = build_and_run(paths + extra, os.path.join(d, 'build'))
            stats['n'] += 1
            stats['units'] += len(proj['order'])
            stats['files'] += len(proj['files'])
            if not ok:
                stats['fail'] += 1
                failures.append((stage, out, files))
            elif verbose:
                print('ok', out)
        finally:
            cleanup(d)
    run()
    return stats, failures


if __name__ == '__main__':
    import sys
    st_, fails = selftest(int(sys.argv[1]) if len(sys.argv) > 1 else 40)
    print(st_)
    for stage, out, files in fails[:3]:
        print('FAIL', stage, out)
        for k, v in files.items():
            print('-----', k)
            print(v)
