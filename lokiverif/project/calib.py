"""
Calibration of the reference closure (refgraph.py) on the repo's own scheduler fixtures.

The fixtures (loki/tests/sources/projA, projBatch, projScopes) are hand-encoded in the description format of
gen.py; the expected graphs are copied from the repo tests that spell them out
(loki/batch/tests/test_scheduler_graph.py: driverA_dependencies, test_scheduler_graph_blocked,
test_scheduler_graph_config_file; loki/batch/tests/test_batch.py: comp1_expected_dependencies,
mod_proc_expected_dependencies, test_sgraph_disable, test_sgraph_routines;
loki/batch/tests/test_scheduler_dependencies.py: test_scheduler_scopes). ``calibrate()`` raises on any
disagreement (a model bug, to be fixed before any claim). ``calibrate_live()`` additionally runs loki on the
fixture directories and compares with the same reference (both parse modes where the fixture parses).
"""
from . import refgraph


def _r(name, kind='sub', body=(), imports=(), intfb=(), decls=(), this=None, recursive=False):
    d = {'name': name, 'kind': kind, 'recursive': recursive, 'imports': list(imports), 'intfb': list(intfb),
         'decls': list(decls), 'body': list(body)}
    if this:
        d['this'] = this
    return d


def _imp(module, *only):
    if not only:
        return {'module': module, 'only': None}
    out = []
    for o in only:
        if isinstance(o, tuple):
            out.append({'local': o[0], 'use': o[1]})
        else:
            out.append({'local': o, 'use': o})
    return {'module': module, 'only': out}


def _call(name, target, via='x'):
    return {'k': 'call', 'name': name, 'target': target, 'via': via}


def _tbp(var, path, target):
    return {'k': 'tbp', 'var': var, 'path': path, 'target': target, 'via': 'x'}


def _m(name, routines=(), imports=(), types=(), interfaces=(), vars_=()):
    return {'name': name, 'vars': list(vars_), 'types': list(types), 'interfaces': list(interfaces),
            'imports': list(imports), 'routines': list(routines)}


def proj_a():
    mods = [
        _m('header_mod', vars_=['jprb'], types=[{'name': 'header_type', 'members': [], 'bindings': []}]),
        _m('drivera_mod', imports=[_imp('header_mod', 'jprb', 'header_type'), _imp('kernela_mod', 'kernela')],
           routines=[_r('drivera', decls=[{'var': 'mystruct', 'type': 'header_type', 'target': 'header_mod#header_type'}],
                        body=[_call('kernela', 'kernela_mod#kernela')])]),
        _m('kernela_mod', imports=[_imp('header_mod', 'jprb'), _imp('compute_l1_mod', 'compute_l1')],
           routines=[_r('kernela', intfb=['another_l1'],
                        body=[_call('compute_l1', 'compute_l1_mod#compute_l1'), _call('another_l1', '#another_l1')])]),
        _m('compute_l1_mod', imports=[_imp('header_mod', 'jprb'), _imp('compute_l2_mod', 'compute_l2')],
           routines=[_r('compute_l1', body=[_call('compute_l2', 'compute_l2_mod#compute_l2')])]),
        _m('compute_l2_mod', imports=[_imp('header_mod', 'jprb')], routines=[_r('compute_l2')]),
    ]
    free = [
        _r('another_l1', imports=[_imp('header_mod', 'jprb')], intfb=['another_l2'],
           body=[_call('another_l2', '#another_l2')]),
        _r('another_l2', imports=[_imp('header_mod', 'jprb')]),
    ]
    return {'modules': mods, 'free': free, 'order': [], 'files': [], 'externals': {'calls': [], 'modules': []}}


DRIVER_A = {
    'drivera_mod#drivera': ('kernela_mod#kernela', 'header_mod', 'header_mod#header_type'),
    'kernela_mod#kernela': ('compute_l1_mod#compute_l1', '#another_l1'),
    'compute_l1_mod#compute_l1': ('compute_l2_mod#compute_l2',),
    'compute_l2_mod#compute_l2': (),
    '#another_l1': ('#another_l2', 'header_mod'),
    '#another_l2': ('header_mod',),
    'header_mod': (),
    'header_mod#header_type': (),
}
DRIVER_A_BLOCKED = {
    'drivera_mod#drivera': ('kernela_mod#kernela', 'header_mod', 'header_mod#header_type'),
    'kernela_mod#kernela': ('compute_l1_mod#compute_l1',),
    'compute_l1_mod#compute_l1': ('compute_l2_mod#compute_l2',),
    'compute_l2_mod#compute_l2': (),
    'header_mod#header_type': (),
    'header_mod': ()
}
PARTIAL_CONFIG = {
    'compute_l1_mod#compute_l1': (),
    '#another_l1': ('#another_l2', 'header_mod'),
    '#another_l2': ('header_mod',),
    'header_mod': (),
}


def proj_batch():
    tt = {'name': 'tt', 'members': [], 'bindings': [{'name': 'proc', 'proc': None, 'generic': None}]}
    t1 = {'name': 't1', 'members': [], 'bindings': [{'name': 'way', 'proc': 'my_way', 'generic': None}]}
    t = {'name': 't', 'members': [{'name': 'yay', 'type': 'tt', 'target': 'tt_mod#tt'},
                                  {'name': 'no', 'type': 't1', 'target': 't_mod#t1'}],
         'bindings': [{'name': 'proc', 'proc': 't_proc', 'generic': None}]}
    mods = [
        _m('header_mod', vars_=['k']),
        _m('tt_mod', imports=[_imp('header_mod', 'k')], vars_=['nclv'], types=[tt],
           interfaces=[{'name': 'intf', 'procs': ['proc']}], routines=[_r('proc', 'tbp', this='tt')]),
        _m('t_mod', imports=[_imp('tt_mod', 'tt', 'intf', 'proc'), _imp('a_mod', 'a')], vars_=['nt1'], types=[t1, t],
           routines=[
               _r('t_proc', 'tbp', this='t', decls=[{'var': 'this', 'type': 't', 'target': 't_mod#t'}],
                  body=[_call('a', 'a_mod#a'), _tbp('this', ['yay', 'proc'], 't_mod#t%yay%proc')]),
               _r('my_way', 'tbp', this='t1', recursive=True, decls=[{'var': 'this', 'type': 't1', 'target': 't_mod#t1'}],
                  body=[_tbp('this', ['way'], 't_mod#t1%way')]),
           ]),
        _m('a_mod', routines=[_r('a', imports=[_imp('header_mod', 'k')])]),
        _m('b_mod', imports=[_imp('header_mod', 'k')], routines=[_r('b')]),
        _m('other_mod', imports=[_imp('tt_mod', 'tt'), _imp('b_mod', 'b')],
           routines=[_r('mod_proc', decls=[{'var': 'arg', 'type': 'tt', 'target': 'tt_mod#tt'}],
                        body=[_tbp('arg', ['proc'], 'tt_mod#tt%proc'), _call('b', 'b_mod#b')])]),
    ]
    free = [
        _r('comp1', imports=[_imp('t_mod', 't', 'nt1'), _imp('header_mod')], intfb=['comp2'],
           decls=[{'var': 'arg', 'type': 't', 'target': 't_mod#t'}],
           body=[_tbp('arg', ['proc'], 't_mod#t%proc'), _call('comp2', '#comp2'),
                 _tbp('arg', ['no', 'way'], 't_mod#t%no%way')]),
        _r('comp2', imports=[_imp('t_mod', 't'), _imp('header_mod', 'k'), _imp('a_mod', 'a'), _imp('b_mod', 'b')],
           decls=[{'var': 'arg', 'type': 't', 'target': 't_mod#t'}],
           body=[_call('a', 'a_mod#a'), _call('b', 'b_mod#b'), _tbp('arg', ['yay', 'proc'], 't_mod#t%yay%proc')]),
    ]
    return {'modules': mods, 'free': free, 'order': [], 'files': [], 'externals': {'calls': [], 'modules': []}}


COMP1 = {
    '#comp1': ('header_mod', 't_mod', 't_mod#t', '#comp2', 't_mod#t%proc', 't_mod#t%no%way'),
    '#comp2': ('header_mod', 't_mod#t', 'a_mod#a', 'b_mod#b', 't_mod#t%yay%proc'),
    'a_mod#a': ('header_mod',),
    'b_mod#b': (),
    't_mod': ('tt_mod#tt', 'tt_mod#intf'),
    't_mod#t': ('tt_mod#tt', 't_mod#t1'),
    't_mod#t1': (),
    't_mod#t%proc': ('t_mod#t_proc',),
    't_mod#t_proc': ('t_mod#t', 'a_mod#a', 't_mod#t%yay%proc'),
    't_mod#t%no%way': ('t_mod#t1%way',),
    't_mod#t%yay%proc': ('tt_mod#tt%proc',),
    't_mod#t1%way': ('t_mod#my_way',),
    't_mod#my_way': ('t_mod#t1',),
    'tt_mod#tt': (),
    'tt_mod#tt%proc': ('tt_mod#proc',),
    'tt_mod#proc': ('tt_mod#tt',),
    'tt_mod#intf': ('tt_mod#proc',),
    'header_mod': (),
}
MOD_PROC = {
    'other_mod#mod_proc': ('tt_mod#tt', 'tt_mod#tt%proc', 'b_mod#b'),
    'tt_mod#tt': (),
    'tt_mod#tt%proc': ('tt_mod#proc',),
    'tt_mod#proc': ('tt_mod#tt',),
    'b_mod#b': ()
}
# test_sgraph_disable: (seed, global disable list, active nodes)
DISABLE_TABLE = [
    ('#comp1', ('comp2', 'a'), (
        '#comp1', 't_mod', 't_mod#t', 'header_mod', 't_mod#t%proc', 't_mod#t%no%way',
        't_mod#t_proc', 't_mod#t%yay%proc', 'tt_mod#tt%proc', 'tt_mod#proc',
        't_mod#t1%way', 't_mod#my_way', 'tt_mod#tt', 't_mod#t1', 'tt_mod#intf')),
    ('#comp1', ('comp2', 'a', 't_mod#t%no%way'), (
        '#comp1', 't_mod', 't_mod#t', 'header_mod', 't_mod#t%proc',
        't_mod#t_proc', 't_mod#t%yay%proc', 'tt_mod#tt%proc', 'tt_mod#proc',
        'tt_mod#tt', 't_mod#t1', 'tt_mod#intf')),
    ('#comp1', ('#comp2', 't1%way'), (
        '#comp1', 't_mod', 't_mod#t', 'header_mod', 't_mod#t%proc', 't_mod#t%no%way',
        't_mod#t_proc', 't_mod#t%yay%proc', 'tt_mod#tt%proc', 'tt_mod#proc',
        'tt_mod#tt', 't_mod#t1', 'a_mod#a', 'tt_mod#intf')),
    ('t_mod#t_proc', ('t_mod#t1', 'proc'), (
        't_mod#t_proc', 't_mod#t', 'tt_mod#tt', 'a_mod#a', 'header_mod',
        't_mod#t%yay%proc', 'tt_mod#tt%proc')),
]
# test_sgraph_routines: (seed, routines config, active nodes)
ROUTINES_TABLE = [
    ('#comp1', {'comp1': {'expand': False}}, ('#comp1',)),
    ('#comp2', {'comp2': {'block': ['a', 'b']}, 't_mod': {'block': ['a']}}, (
        '#comp2', 't_mod#t', 'header_mod', 't_mod#t%yay%proc',
        'tt_mod#tt', 't_mod#t1', 'tt_mod#tt%proc', 'tt_mod#proc')),
    ('#comp2', {'comp2': {'ignore': ['a'], 'block': ['b']}, 't_mod': {'ignore': ['a']}}, (
        '#comp2', 't_mod#t', 'header_mod', 't_mod#t%yay%proc',
        'tt_mod#tt', 't_mod#t1', 'tt_mod#tt%proc', 'tt_mod#proc', 'a_mod#a')),
]


def proj_scopes():
    mods = [
        _m('kernel1_mod', routines=[_r('kernel', imports=[_imp('kernel1_impl')],
                                       body=[_call('kernel_impl', 'kernel1_impl#kernel_impl')])]),
        _m('kernel1_impl', routines=[_r('kernel_impl')]),
        _m('kernel2_mod', routines=[_r('kernel', imports=[_imp('kernel2_impl')],
                                       body=[_call('kernel_impl', 'kernel2_impl#kernel_impl')])]),
        _m('kernel2_impl', routines=[_r('kernel_impl')]),
    ]
    free = [_r('driver', imports=[_imp('kernel1_mod', ('kernel1', 'kernel')), _imp('kernel2_mod', ('kernel2', 'kernel'))],
               body=[_call('kernel1', 'kernel1_mod#kernel'), _call('kernel2', 'kernel2_mod#kernel')])]
    return {'modules': mods, 'free': free, 'order': [], 'files': [], 'externals': {'calls': [], 'modules': []}}


SCOPES = {
    '#driver': ('kernel1_mod#kernel', 'kernel2_mod#kernel'),
    'kernel1_mod#kernel': ('kernel1_impl', 'kernel1_impl#kernel_impl'),
    'kernel1_impl': (),
    'kernel1_impl#kernel_impl': (),
    'kernel2_mod#kernel': ('kernel2_impl', 'kernel2_impl#kernel_impl'),
    'kernel2_impl': (),
    'kernel2_impl#kernel_impl': (),
}

BASE = {'mode': 'idem', 'role': 'kernel', 'expand': True, 'strict': True, 'disable': ['abort'], 'enable_imports': True}


def _expect(table):
    return set(table), {(a, b) for a, deps in table.items() for b in deps}


def _compare(label, proj, config, seeds, table, nodes_only=None, within=None):
    ref = refgraph.closure(proj, config, seeds, full_parse=True)
    items, edges = set(ref['items']), set(ref['edges'])
    cyc = refgraph.cyclic_edges(items, edges)
    if nodes_only is not None:
        want_items = set(nodes_only)
        want_edges = {(a, b) for a, deps in within.items() for b in deps if a in want_items and b in want_items}
    else:
        want_items, want_edges = _expect(table)
    if items != want_items:
        raise AssertionError(f'refgraph calibration [{label}]: items {sorted(items ^ want_items)} differ')
    if (edges - cyc) - want_edges or want_edges - edges:
        raise AssertionError(f'refgraph calibration [{label}]: edges differ: '
                             f'ref-only {sorted((edges - cyc) - want_edges)} expected-only {sorted(want_edges - edges)}')


def calibrate():
    """compare the reference closure with the graphs written out in the repo tests; raises on disagreement"""
    n = 0
    pa = proj_a()
    for seed in ('drivera', 'drivera_mod#drivera'):
        _compare('projA driverA', pa, {'default': dict(BASE), 'routines': {}}, [seed], DRIVER_A)
        _compare('projA blocked', pa, {'default': dict(BASE, block=['another_l1']), 'routines': {}}, [seed], DRIVER_A_BLOCKED)
        n += 2
    partial = {'default': {'mode': 'test', 'role': 'kernel', 'expand': True, 'strict': True, 'block': ['compute_l2']},
               'routines': {'compute_l1': {'role': 'driver', 'expand': True}, 'another_l1': {'role': 'driver', 'expand': True}}}
    _compare('projA scheduler_partial.config', pa, partial, ['compute_l1', 'another_l1'], PARTIAL_CONFIG)
    pb = proj_batch()
    dflt = {'mode': 'idem', 'role': 'kernel', 'expand': True, 'strict': True, 'disable': ['abort']}
    for seed in ('#comp1', 'comp1'):
        _compare('projBatch comp1', pb, {'default': dict(dflt), 'routines': {}}, [seed], COMP1)
    for seed in ('other_mod#mod_proc', 'mod_proc'):
        _compare('projBatch mod_proc', pb, {'default': dict(dflt), 'routines': {}}, [seed], MOD_PROC)
    both = dict(COMP1)
    both.update(MOD_PROC)
    _compare('projBatch both seeds', pb, {'default': dict(dflt), 'routines': {}}, ['#comp1', 'other_mod#mod_proc'], both)
    _compare('projBatch unknown seed', pb, {'default': dict(dflt), 'routines': {}}, ['#foobar'], {})
    n += 7
    for seed, disable, active in DISABLE_TABLE:
        _compare(f'projBatch disable={disable}', pb, {'default': dict(dflt, disable=list(disable)), 'routines': {}},
                 [seed], None, nodes_only=active, within=both)
        n += 1
    for seed, routines, active in ROUTINES_TABLE:
        _compare(f'projBatch routines={routines}', pb, {'default': dict(dflt), 'routines': routines},
                 [seed], None, nodes_only=active, within=both)
        n += 1
    _compare('projScopes', proj_scopes(), {'default': dict(BASE), 'routines': {}}, ['driver'], SCOPES)
    n += 1
    # ignore flags: test_scheduler_graph_multiple_separate semantics on a tiny hand-made project
    p = {'modules': [_m('m1', routines=[_r('a', body=[_call('b', 'm2#b')], imports=[_imp('m2', 'b')])]),
                     _m('m2', routines=[_r('b', body=[_call('c', 'm2#c')]), _r('c')])],
         'free': [], 'order': [], 'files': [], 'externals': {'calls': [], 'modules': []}}
    ref = refgraph.closure(p, {'default': dict(BASE), 'routines': {'a': {'ignore': ['b']}}}, ['a'])
    if ref['ignored'] != {'m1#a': False, 'm2#b': True, 'm2#c': True}:
        raise AssertionError(f'refgraph calibration [ignore propagation]: {ref["ignored"]}')
    # match_item_keys table from test_scheduler_config.py::test_scheduler_config_match_item_keys
    table = [
        ('comp2', ('comp1', 'comp2'), False, False, ('comp2',)),
        ('#comp2', ('comp1', 'comp2'), False, False, ('comp2',)),
        ('#comp2', ('comp1', '#comp2'), False, False, ('#comp2',)),
        ('t_mod#t%proc', ('t_mod#t%proc',), False, False, ('t_mod#t%proc',)),
        ('t_mod#t%proc', ('t%proc',), False, False, ('t%proc',)),
        ('t_mod#t%proc', ('t_mod',), False, False, ()),
        ('t_mod#t%proc', ('t_mod',), False, True, ('t_mod',)),
        ('t_mod#t%proc', ('t_mod#t',), False, True, ('t_mod#t',)),
        ('t_mod#t%proc', ('t',), False, True, ('t',)),
        ('t_mod#t%proc', ('t_mod#*',), True, False, ('t_mod#*',)),
        ('t_mod#t%proc', ('t_*',), True, True, ('t_*',)),
    ]
    for name, keys, pat, par, want in table:
        got = tuple(refgraph.match_keys(name, keys, patterns=pat, parents=par))
        if got != want:
            raise AssertionError(f'refgraph calibration [match_keys {name} {keys} {pat} {par}]: {got} != {want}')
        n += 1
    return n + 1


def calibrate_live(repo):
    """run loki on the fixture directories and compare with the same reference; -> list of disagreements"""
    import os
    from . import harness
    harness.quiet()
    from loki.batch import Scheduler
    out = []
    src = os.path.join(repo, 'loki', 'tests', 'sources')

    def cmp(label, sched, proj, config, seeds, fp):
        got = harness.graph_of(sched)
        ref = refgraph.closure(proj, config, seeds, full_parse=fp)
        cyc = refgraph.cyclic_edges(set(ref['items']), ref['edges'])
        if set(got['items']) != set(ref['items']):
            out.append(f'{label} fp={fp}: items {sorted(set(got["items"]) ^ set(ref["items"]))}')
        elif (ref['edges'] - cyc) - got['edges'] or got['edges'] - ref['edges']:
            out.append(f'{label} fp={fp}: edges {sorted(((ref["edges"] - cyc) - got["edges"]) | (got["edges"] - ref["edges"]))}')
        else:
            kinds = {n for n in ref['items'] if ref['items'][n] != got['items'][n]}
            if kinds:
                out.append(f'{label} fp={fp}: kinds {sorted(kinds)}')
    pa, pb = proj_a(), proj_batch()
    for fp in (False, True):
        conf = {'default': dict(BASE), 'routines': {}}
        s = Scheduler(paths=[os.path.join(src, 'projA')], includes=os.path.join(src, 'projA', 'include'),
                      config=conf, seed_routines=['driverA'], full_parse=fp)
        cmp('projA', s, pa, conf, ['drivera'], fp)
        s = Scheduler(paths=[os.path.join(src, 'projScopes')], config=conf, seed_routines=['driver'], full_parse=fp)
        cmp('projScopes', s, proj_scopes(), conf, ['driver'], fp)
    conf = {'default': {'mode': 'idem', 'role': 'kernel', 'expand': True, 'strict': True, 'disable': ['abort']}, 'routines': {}}
    s = Scheduler(paths=[os.path.join(src, 'projBatch')], config=conf, seed_routines=['comp1'], full_parse=False)
    cmp('projBatch', s, pb, conf, ['comp1'], False)
    return out
