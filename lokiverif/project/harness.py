"""Driving loki's Scheduler on generated projects and extracting comparable (JSON-able) observations."""
import copy
import os

from . import gen

_quiet = [False]


def quiet():
    if not _quiet[0]:
        from loki import config as loki_config
        loki_config['log-level'] = 'error'
        import logging
        logging.getLogger('loki').setLevel(logging.CRITICAL)
        _quiet[0] = True


KINDS = {'ProcedureItem': 'proc', 'ModuleItem': 'module', 'TypeDefItem': 'typedef',
         'ProcedureBindingItem': 'binding', 'InterfaceItem': 'interface', 'ExternalItem': 'external',
         'FileItem': 'file'}


def make_scheduler(root, config, seeds, full_parse=True, output_dir=None, paths=None):
    quiet()
    from loki.batch import Scheduler
    return Scheduler(paths=paths or [root], config=copy.deepcopy(config), seed_routines=list(seeds),
                     full_parse=full_parse, output_dir=output_dir)


def graph_of(scheduler, lower=False):
    f = (lambda s: s.lower()) if lower else (lambda s: s)
    items = {f(it.name): KINDS.get(type(it).__name__, type(it).__name__) for it in scheduler.items}
    edges = {(f(a.name), f(b.name)) for a, b in scheduler.dependencies}
    ignored = {f(it.name): bool(it.is_ignored) for it in scheduler.items}
    return {'items': items, 'edges': edges, 'ignored': ignored}


def cache_names(scheduler, root=None):
    out = set()
    for k, it in scheduler.item_factory.item_cache.items():
        if type(it).__name__ == 'FileItem':
            continue
        out.add(k)
    return out


class Workdir:
    """materialised project in a scratch directory (always cleaned up)"""

    def __init__(self, proj, casing=None, label='p'):
        self.dir = gen.scratch_dir(label)
        self.src = os.path.join(self.dir, 'src')
        self.files = gen.render(proj, casing)
        self.paths = gen.materialize(self.files, self.src)

    def __enter__(self):
        return self

    def __exit__(self, *exc):
        gen.cleanup(self.dir)
        return False


def make_probe(item_filter='proc', reverse=False, file_graph=False, process_ignored=False,
               recurse_modules=False, recurse_procedures=False, creates_items=False, renames_items=False):
    """
    A Transformation that only records how it is invoked. ``calls`` = list of dicts
    {'hook', 'ir' (kind:name), 'item', 'role', 'mode', 'targets', 'items', 'succ'}
    """
    from loki.batch import Transformation
    from loki.batch.item import (ProcedureItem, ModuleItem, TypeDefItem, InterfaceItem, ProcedureBindingItem, Item)
    fmap = {'proc': ProcedureItem, 'module': ModuleItem, 'typedef': TypeDefItem, 'interface': InterfaceItem,
            'binding': ProcedureBindingItem, 'all': Item}
    if isinstance(item_filter, str):
        flt = fmap[item_filter]
    else:
        flt = tuple(fmap[f] for f in item_filter)

    class Probe(Transformation):
        pass

    Probe.item_filter = flt
    Probe.reverse_traversal = reverse
    Probe.traverse_file_graph = file_graph
    Probe.process_ignored_items = process_ignored
    Probe.recurse_to_modules = recurse_modules
    Probe.recurse_to_procedures = recurse_procedures
    Probe.creates_items = creates_items
    Probe.renames_items = renames_items

    calls = []

    def rec(hook):
        def fn(self, obj, **kwargs):
            item = kwargs.get('item')
            sub = kwargs.get('sub_sgraph')
            name = getattr(obj, 'name', None)
            if name is None:
                name = str(getattr(obj, 'path', ''))
            calls.append({
                'hook': hook, 'ir': str(name), 'item': item.name if item is not None else None,
                'item_kind': KINDS.get(type(item).__name__) if item is not None else None,
                'role': kwargs.get('role'), 'mode': kwargs.get('mode'),
                'targets': None if kwargs.get('targets') is None else [str(t) for t in kwargs.get('targets')],
                'items': None if kwargs.get('items') is None else [i.name for i in kwargs.get('items')],
                'sub': None if sub is None else sorted(i.name for i in sub.items),
                'plan_mode': kwargs.get('plan_mode'),
                'has_depths': 'depths' in kwargs,
            })
        return fn

    for h in ('transform_subroutine', 'transform_module', 'transform_file',
              'plan_subroutine', 'plan_module', 'plan_file'):
        setattr(Probe, h, rec(h))
    probe = Probe()
    probe.calls = calls
    return probe
