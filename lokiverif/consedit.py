"""
Helpers of C03 (conservative output): program units of a parsed file, the *edit protocol* (apply a local
modification the way real callers do and invalidate the containers on the path to the Sourcefile), the edit
operations, recognisers for the listed root causes, and the text oracle "valid nodes are written verbatim".

Edit protocol (DESIGN 3/C03; test_fgen_conservative_rebuild, Fixer.fix_subroutine): the conservative backend trusts
Source.status of every container. An edit is applied with Transformer / SubstituteExpressions
(invalidate_source=True) to ``unit.body`` or ``unit.spec``; afterwards the unit, the ``contains`` section of every
enclosing unit, the enclosing units, ``sf.ir`` and ``sf.source`` are marked INVALID_CHILDREN.
"""

from . import fflex

MARK = 'c03 edit'


# ------------------------------------------------------------------------------------------ units
def units_of(sf):
    """[(names, unit)] for modules, their procedures, free routines and (one level of) internal procedures"""
    from loki import Module, Subroutine
    out = []

    def routine(prefix, r):
        out.append((prefix + [r.name.lower()], r))
        for m in r.members:
            out.append((prefix + [r.name.lower(), m.name.lower()], m))

    for node in sf.ir.body:
        if isinstance(node, Module):
            out.append(([node.name.lower()], node))
            for r in node.subroutines:
                routine([node.name.lower()], r)
        elif isinstance(node, Subroutine):
            routine([], node)
    return out


def find_unit(sf, names):
    for n, u in units_of(sf):
        if n == list(names):
            return u
    return None


def invalidate_path(sf, unit):
    from loki.program_unit import ProgramUnit
    if unit.source is not None:
        unit.source.invalidate(children=True)
    p = unit.parent
    while p is not None and isinstance(p, ProgramUnit):
        if p.contains is not None and p.contains.source is not None:
            p.contains.source.invalidate(children=True)
        if p.source is not None:
            p.source.invalidate(children=True)
        p = p.parent
    if sf.ir.source is not None:
        sf.ir.source.invalidate(children=True)
    if sf.source is not None:
        sf.source.invalidate(children=True)


# ------------------------------------------------------------------------------------------ tree walking
def child_nodes(node):
    from loki.ir import Node
    from loki.program_unit import ProgramUnit
    from loki.tools import flatten
    if isinstance(node, ProgramUnit):
        return [c for g in child_groups(node) for c in g]
    return [c for c in flatten(node.children) if isinstance(c, (Node, ProgramUnit))]


def walk(node, anc=()):
    """pre-order (node, ancestors) over IR nodes below ``node`` (exclusive)"""
    for c in child_nodes(node):
        yield c, anc + (node,)
        yield from walk(c, anc + (node,))


def is_valid(node):
    return getattr(node, 'source', None) is not None and node.source.is_valid()


def is_literal(e):
    from loki.expression import symbols as sym
    if isinstance(e, (sym.IntLiteral, sym.FloatLiteral, sym.LogicLiteral)):
        return True
    if isinstance(e, sym.Product) and len(e.children) == 2 and e.children[0] == -1:
        return is_literal(e.children[1])
    return False


def prologue_end(routine):
    """last source line of the leading run of ``<variable> = <literal>`` statements (they define every variable)"""
    from loki import ir
    last = 0
    for n in routine.body.body:
        if isinstance(n, (ir.Comment, ir.CommentBlock)):
            continue
        if isinstance(n, ir.Assignment) and is_literal(n.rhs) and n.source is not None:
            last = n.source.lines[1]
            continue
        break
    return last


def protected_names(routine):
    """variables that steer termination: everything in a DO WHILE condition, DO variables"""
    from loki import ir, FindNodes, FindVariables
    names = set()
    for w in FindNodes(ir.WhileLoop).visit(routine.body):
        names |= {str(v.name).lower() for v in FindVariables().visit(w.condition)}
    for lp in FindNodes(ir.Loop).visit(routine.body):
        names.add(str(lp.variable.name).lower())
    return names


KINDS = ('Assignment', 'CallStatement', 'PrintStmt', 'Comment', 'Conditional', 'Loop', 'WhileLoop', 'MultiConditional',
         'MaskedStatement')


def candidates(routine, op, kind, safe):
    """nodes of ``routine.body`` that ``op`` may touch; ``safe`` = keep the program defined and terminating"""
    from loki import ir
    cls = {'Assignment': ir.Assignment, 'CallStatement': ir.CallStatement, 'PrintStmt': ir.PrintStmt,
           'Comment': ir.Comment, 'Conditional': ir.Conditional, 'Loop': ir.Loop, 'WhileLoop': ir.WhileLoop,
           'MultiConditional': ir.MultiConditional, 'MaskedStatement': ir.MaskedStatement}[kind]
    pend = prologue_end(routine) if safe else 0
    prot = protected_names(routine) if safe else set()
    is_function = bool(getattr(routine, 'is_function', False))
    out = []
    for n, anc in walk(routine.body):
        if type(n) is not cls:
            continue
        if n.source is not None and n.source.lines[0] <= pend:
            continue
        parent = anc[-1]
        in_where = any(isinstance(a, ir.MaskedStatement) for a in anc)
        in_inline = isinstance(parent, (ir.Conditional, ir.MaskedStatement)) and getattr(parent, 'inline', False)
        in_elseif = isinstance(n, ir.Conditional) and isinstance(parent, ir.Conditional) and parent.has_elseif \
            and parent.else_body and parent.else_body[0] is n
        if in_elseif:
            continue          # an ELSE IF branch is not a statement of its own
        if op in ('delete', 'insert', 'print'):
            if in_where or in_inline:
                continue
            if safe and is_function:
                continue
        if op in ('delete', 'print', 'lit') and isinstance(n, ir.Assignment) and safe:
            if str(getattr(n.lhs, 'name', n.lhs)).lower() in prot or is_function:
                continue
        if op == 'lit' and not isinstance(n, ir.Assignment):
            continue
        depth = sum(1 for a in anc if not isinstance(a, ir.Section))
        out.append((n, depth))
    return out


def literal_for(lhs, v):
    from loki.expression import symbols as sym
    from loki.types import BasicType
    dt = getattr(getattr(lhs, 'type', None), 'dtype', None)
    if dt == BasicType.INTEGER:
        return sym.IntLiteral(v)
    if dt == BasicType.REAL:
        return sym.FloatLiteral(f'{v}.5d0')
    if dt == BasicType.LOGICAL:
        return sym.LogicLiteral(bool(v % 2))
    return None


def opaque_names(unit):
    """
    names that SubstituteExpressions on ``unit.body`` does not reach: identifiers in PRINT / other GenericStmt nodes
    (PrintStmt.values is not a traversable field: FindVariables / SubstituteExpressions skip it) and everything the
    internal procedures of the unit mention (host association)
    """
    import re
    from loki import ir, FindNodes, FindVariables
    names = set()
    for g in FindNodes(ir.GenericStmt).visit(unit.body):
        texts = [str(v) for v in getattr(g, 'values', ())] + [str(g.text or '')]
        if g.source is not None and g.source.string:
            texts.append(g.source.string)
        for t in texts:
            names |= {w.lower() for w in re.findall(r'[A-Za-z_]\w*', t)}
    for m in getattr(unit, 'members', ()) or ():
        for part in (m.spec, m.body):
            if part is None:
                continue
            names |= {str(v.name).lower().split('%')[0] for v in FindVariables().visit(part)}
            for g in FindNodes(ir.GenericStmt).visit(part):
                for t in [str(v) for v in getattr(g, 'values', ())] + [str(g.text or '')]:
                    names |= {w.lower() for w in re.findall(r'[A-Za-z_]\w*', t)}
    return names


def markers_in_ir(sf):
    """edit markers that are (still) present in the IR: a later edit may remove the construct an earlier one went into"""
    import re
    found = []

    def rec(n):
        t = getattr(n, 'text', None)
        if isinstance(t, str) and MARK in t:
            found.extend(re.findall(re.escape(MARK) + r' \d+', t))
        for c in child_nodes(n):
            rec(c)
    rec(sf.ir)
    return found


def new_node(spec, serial):
    from loki import ir
    if spec == 'print':
        return ir.GenericStmt(text=f"PRINT *, '{MARK} {serial}'")
    return ir.Comment(text=f'! {MARK} {serial}')


def apply_edit(sf, edit, serial, safe):
    """
    apply one edit (JSON) following the protocol; returns a description dict (with 'applied': bool) for the record
    """
    from loki import ir, Transformer, SubstituteExpressions, FindVariables, FindNodes
    from loki.program_unit import ProgramUnit
    us = units_of(sf)
    if not us:
        return {'applied': False, 'why': 'no-unit'}
    op = edit['op']
    from loki import Module as _Module
    routines = [x for x in us if not isinstance(x[1], _Module)]
    pool = us if op == 'spec_comment' or not routines else routines
    names, unit = pool[edit['unit'] % len(pool)]
    rec = {'op': op, 'unit': '/'.join(names), 'applied': False}
    from loki import Module
    if op == 'spec_comment' or isinstance(unit, Module):
        decls = [n for n in unit.spec.body if isinstance(n, (ir.VariableDeclaration, ir.Import, ir.GenericStmt))]
        if not decls:
            rec['why'] = 'no-declaration'
            return rec
        tgt = decls[edit['idx'] % len(decls)]
        new = new_node('comment', serial)
        unit.spec = Transformer({tgt: (tgt, new)}).visit(unit.spec)
        invalidate_path(sf, unit)
        rec.update(op='spec_comment', applied=True, marker=f'{MARK} {serial}', depth=0, kind=type(tgt).__name__)
        return rec
    if op == 'subst':
        prot = protected_names(unit) if safe else set()
        args_in = {str(a.name).lower() for a in unit.arguments if getattr(a.type, 'intent', None) == 'in'}
        called = set()
        for c in FindNodes(ir.CallStatement).visit(unit.body):
            called |= {str(v.name).lower() for v in FindVariables().visit((c.arguments, c.kwarguments))}
        used = []
        for v in FindVariables(unique=False).visit(unit.body):
            nm = str(v.name).lower()
            if nm not in used:
                used.append(nm)
        vm = unit.variable_map
        opaque = opaque_names(unit)
        cand = []
        for nm in used:
            if nm in opaque:
                continue      # would stay behind un-substituted (and undefined: the prologue assignment is substituted)
            v = vm.get(nm)
            if v is None or getattr(v, 'dimensions', None) or getattr(v.type, 'shape', None) or '%' in nm:
                continue
            if nm in prot or nm in args_in or nm in called or getattr(v.type, 'parameter', False):
                continue
            if str(unit.name).lower() == nm or (getattr(unit, 'result_name', None) or '').lower() == nm:
                continue
            cand.append(v)
        if len(cand) < 2:
            rec['why'] = 'no-substitutable-pair'
            return rec
        a = cand[edit['idx'] % len(cand)]
        same = [v for v in cand if v is not a and v.type.dtype == a.type.dtype]
        if not same:
            rec['why'] = 'no-substitutable-pair'
            return rec
        b = same[edit.get('idx2', 0) % len(same)]
        unit.body = SubstituteExpressions({a: b}, invalidate_source=True).visit(unit.body)
        invalidate_path(sf, unit)
        rec.update(applied=True, depth=0, kind='Variable', detail=f'{a} -> {b}')
        return rec
    mode = op
    if op == 'replace':
        mode = edit.get('new', 'clone')      # clone | print | lit
    cands = []
    for shift in range(len(KINDS)):          # the drawn node kind, else the next kind that the unit offers
        kind = KINDS[(edit['kind'] + shift) % len(KINDS)]
        cands = candidates(unit, mode, kind, safe)
        if cands:
            break
    if not cands:
        rec['why'] = f'no-candidate:{mode}'
        return rec
    deep = [c for c in cands if c[1] >= 1]
    if deep and edit['idx'] % 4:
        cands = deep                      # three out of four edits go into a construct when the unit has one
    tgt, depth = cands[edit['idx'] % len(cands)]
    rec.update(kind=kind, depth=depth)
    if op == 'delete':
        mapper = {tgt: None}
    elif op == 'insert':
        new = new_node(edit.get('new', 'comment') if not (safe and getattr(unit, 'is_function', False)) else 'comment', serial)
        mapper = {tgt: (new, tgt) if edit.get('before') else (tgt, new)}
        rec['marker'] = f'{MARK} {serial}'
    else:
        if mode == 'print':
            new = new_node('print', serial)
            rec['marker'] = f'{MARK} {serial}'
        elif mode == 'lit':
            lit = literal_for(tgt.lhs, serial)
            new = tgt.clone(rhs=lit, source=None) if lit is not None else tgt.clone(source=None)
        else:
            new = tgt.clone(source=None)
        mapper = {tgt: new}
        rec['new'] = mode
    parent = None
    if op == 'delete':
        for n, anc in walk(unit.body):
            if n is tgt:
                parent = anc[-1]
                break
    trafo = Transformer(mapper)
    old_body = unit.body
    unit.body = trafo.visit(unit.body)
    if parent is not None:
        # a removed node is a change of its parent: the parent must not keep a VALID source
        now = unit.body if parent is old_body else trafo.rebuilt.get(parent, parent)
        if is_valid(now):
            rec['stale_parent'] = type(now).__name__
    invalidate_path(sf, unit)
    rec['applied'] = True
    return rec


# ------------------------------------------------------------------------------------------ backend introspection
def has_conservative_handler(node):
    from loki.backend.fgencon import FortranCodegenConservative
    from loki.backend.fgen import FortranCodegen
    for klass in type(node).__mro__:
        name = 'visit_' + klass.__name__
        if name in FortranCodegenConservative.__dict__:
            return True
        if hasattr(FortranCodegen, name):
            return False
    return True


# ------------------------------------------------------------------------------------------ reached nodes / triggers
def reached(sf):
    """
    nodes the conservative backend visits: [(node, ancestors, top_valid)]; below a VALID node nothing is visited.
    Program units are descended through docstring / spec / body / contains.
    """
    from loki.program_unit import ProgramUnit
    out = []

    def kids(n):
        if isinstance(n, ProgramUnit):
            ks = []
            for part in (getattr(n, 'docstring', None), n.spec, getattr(n, 'body', None), n.contains):
                if part is None:
                    continue
                if isinstance(part, (tuple, list)):
                    ks += list(part)
                else:
                    ks.append(part)
            return ks
        return child_nodes(n)

    def rec(n, anc):
        v = is_valid(n)
        out.append((n, anc, v))
        if v:
            return
        for c in kids(n):
            rec(c, anc + (n,))

    rec(sf.ir, ())
    return out


def header_is_continued(node):
    first = node.source.string.split('\n')[0]
    code, _ = fflex.split_trailing_comment(first)
    return code.rstrip().endswith('&')


BREAKING = ('one-line-if', 'one-line-where', 'else-if-chain', 'continued-block-header', 'labelled-do', 'shared-line', 'removed-node')


def triggers(sf):
    """names of the listed root causes whose trigger is present in what the backend will visit"""
    from loki import ir
    from loki.frontend.source import SourceStatus
    found = []
    prev_leaf = None
    leaky = set()          # ids of ELSE IF conditionals that are written by the conservative header-from-source path
    for n, anc, valid in reached(sf):
        src = getattr(n, 'source', None)
        if isinstance(n, ir.Conditional) and not valid:
            if n.inline and n.body and getattr(n.body[0], 'source', None) is not None and has_conservative_handler(n.body[0]):
                found.append('one-line-if')
            if not n.inline and src is not None and src.status == SourceStatus.INVALID_CHILDREN and n.has_elseif \
                    and n.else_body and isinstance(n.else_body[0], ir.Conditional):
                leaky.add(id(n.else_body[0]))
            if not n.inline and any(id(a) in leaky for a in anc) or id(n) in leaky:
                # `is_elseif` leaks into everything below an ELSE IF branch: a further ELSE IF raises TypeError, a block IF
                # that is not written from its source header becomes an ELSE IF
                inside = any(id(a) in leaky for a in anc)
                if n.has_elseif or (inside and (src is None or src.status == SourceStatus.INVALID_NODE)):
                    found.append('else-if-chain')
        if isinstance(n, ir.MaskedStatement) and n.inline and n.bodies and n.bodies[0] and \
                getattr(n.bodies[0][0], 'source', None) is not None:
            found.append('one-line-where')
        if isinstance(n, (ir.Loop, ir.Conditional)) and src is not None and src.status == SourceStatus.INVALID_CHILDREN \
                and not getattr(n, 'inline', False):
            if header_is_continued(n):
                found.append('continued-block-header')
            if isinstance(n, ir.Loop) and n.loop_label:
                found.append('labelled-do')
        if valid and not child_nodes(n) and not isinstance(n, (ir.Comment, ir.CommentBlock)):
            if prev_leaf is not None and prev_leaf.source.lines == n.source.lines and has_conservative_handler(n):
                found.append('shared-line')
            prev_leaf = n
    return sorted(set(found))


def inline_repeats(sf, out_text):
    """
    a one-line IF / WHERE that is not written from its own source must be re-generated as a whole: its statement carries
    the source line of the complete IF / WHERE statement, which must not be written behind the re-generated condition.
    -> list of (signature-suffix, detail)
    """
    from loki import ir
    problems = []
    out_lines = [ln.strip() for ln in out_text.split('\n')]
    for n, anc, valid in reached(sf):
        if valid or not isinstance(n, (ir.Conditional, ir.MaskedStatement)) or not n.inline:
            continue
        body = n.body if isinstance(n, ir.Conditional) else (n.bodies[0] if n.bodies else ())
        if not body or getattr(body[0], 'source', None) is None or not body[0].source.string:
            continue
        first = body[0].source.string.split('\n')[0].strip()
        kw = 'if' if isinstance(n, ir.Conditional) else 'where'
        if not first.lower().startswith(kw):
            continue
        for ln in out_lines:
            if len(ln) > len(first) and ln.endswith(first) and ln.lower().startswith(kw):
                problems.append((f'one-line-{kw}-statement-repeated', f'{ln[:200]!r}'))
                break
    return problems


# ------------------------------------------------------------------------------------------ verbatim oracle
def is_trailing_comment(node, orig_lines):
    from loki import ir
    if not isinstance(node, ir.Comment) or node.source is None:
        return False
    l0 = node.source.lines[0]
    if l0 < 1 or l0 > len(orig_lines):
        return False
    code, cmt = fflex.split_trailing_comment(orig_lines[l0 - 1])
    return cmt is not None and bool(code.strip())


def child_groups(n):
    """child nodes of ``n`` in the groups between which ``n`` writes text of its own (ELSE, CASE, ELSEWHERE, CONTAINS)"""
    from loki.ir import Node
    from loki.program_unit import ProgramUnit

    def groups_of(c):
        if isinstance(c, (Node, ProgramUnit)):
            return [[c]]
        if isinstance(c, (tuple, list)):
            if all(isinstance(x, (Node, ProgramUnit)) for x in c):
                return [list(c)] if c else []
            out = []
            for x in c:
                out += groups_of(x)
            return out
        return []

    if isinstance(n, ProgramUnit):
        parts = (getattr(n, 'docstring', None), n.spec, getattr(n, 'body', None), n.contains)
    else:
        parts = n.children
    out = []
    for part in parts:
        out += groups_of(part)
    return out


def segments(sf, orig_lines):
    """
    what the conservative output must look like: a list of ('V', node, first, last, cause) for every top-most VALID
    node (its original lines first..last must be written contiguously) and ('X',) wherever something else may be written
    (headers, footers and branch lines of invalidated containers, re-generated nodes). ``cause`` names a listed root
    cause that is known to spoil this segment, or None.
    """
    from loki import ir
    segs = []
    state = {'span': None}

    def x():
        if not segs or segs[-1][0] != 'X':
            segs.append(('X',))

    def rec(n, parent):
        if not is_valid(n):
            x()
            for gi, group in enumerate(child_groups(n)):
                if gi:
                    x()
                for c in group:
                    rec(c, n)
            x()
            return
        l0, l1 = n.source.lines
        l1 = l1 or l0
        if isinstance(n, ir.Section) and not n.body:
            return                              # an empty specification / body part: nothing to write
        if is_trailing_comment(n, orig_lines):
            return                              # part of the statement line it trails
        sp = state['span']
        if sp is not None and l0 >= sp[0] and l1 <= sp[1]:
            return                              # shares its line(s) with the previous valid node: written once
        cause = None
        if isinstance(parent, (ir.Conditional, ir.MaskedStatement)) and parent.inline:
            return                              # shares its line with the (invalidated) one-line IF / WHERE: see inline_repeats()
        if not has_conservative_handler(n):
            cause = 'no-conservative-handler'
        segs.append(('V', n, l0, l1, cause))
        state['span'] = (l0, l1)

    rec(sf.ir, None)
    return segs


def align(blocks, out_lines):
    """
    best in-order placement of the blocks in the output (maximum number of placed blocks, every block contiguous):
    -> list of output indices (or -1) per block. Dynamic programme over (block, output position).
    """
    k, n = len(blocks), len(out_lines)
    # positions where block i matches
    first = {}
    for i, b in enumerate(blocks):
        first.setdefault(b[0], []).append(i)
    match = [set() for _ in range(k)]
    for pos, ln in enumerate(out_lines):
        for i in first.get(ln, ()):
            b = blocks[i]
            if out_lines[pos:pos + len(b)] == b:
                match[i].add(pos)
    # weight of a placed block: distinctive (non-blank) lines count four times as much as blank lines
    weight = [sum(4 if ln.strip() else 1 for ln in b) for b in blocks]
    # f[i][pos] = best total weight for blocks i.. from output position pos
    nxt = [0] * (n + 2)
    choice = [None] * k
    table = [None] * (k + 1)
    table[k] = nxt
    for i in range(k - 1, -1, -1):
        cur = [0] * (n + 2)
        below = table[i + 1]
        m = match[i]
        lb = len(blocks[i])
        for pos in range(n, -1, -1):
            best = below[pos]                       # skip block i
            if cur[pos + 1] > best:
                best = cur[pos + 1]                 # skip output line
            if pos in m:
                v = weight[i] + below[min(pos + lb, n + 1)] if pos + lb <= n else 0
                if v > best:
                    best = v
            cur[pos] = best
        table[i] = cur
    # reconstruct (prefer the earliest placement)
    place = [-1] * k
    pos = 0
    for i in range(k):
        cur, below = table[i], table[i + 1]
        lb = len(blocks[i])
        # is block i placed in an optimal solution from pos?  find the earliest position p >= pos realising cur[pos]
        target = cur[pos]
        if target == below[pos]:
            # skipping block i is optimal as well; prefer placing it if that is optimal too
            pass
        p = pos
        placed = False
        while p <= n:
            if cur[p] < target:
                break
            if p in match[i] and p + lb <= n and weight[i] + below[p + lb] == target:
                place[i] = p
                pos = p + lb
                placed = True
                break
            p += 1
        if not placed:
            place[i] = -1
    return place


def verbatim_check(sf, orig_text, out_text):
    """
    -> list of (signature-suffix, detail). Every V segment must occur (in order) in the output; between two V segments
    without an X in between nothing else may be written.
    """
    orig_lines = orig_text.split('\n')
    out_lines = out_text.split('\n')
    segs = segments(sf, orig_lines)
    vs = [s for s in segs if s[0] == 'V']
    blocks = [orig_lines[s[2] - 1:s[3]] for s in vs]
    place = align(blocks, out_lines)
    index = {id(s): i for i, s in enumerate(vs)}
    # runs of V segments that must be adjacent (no X in between, all placed)
    runs, cur = [], []
    for s in segs:
        if s[0] == 'X' or place[index[id(s)]] < 0:
            if cur:
                runs.append(cur)
            cur = []
            continue
        cur.append(index[id(s)])
    if cur:
        runs.append(cur)
    # the alignment is ambiguous for blocks that occur repeatedly (blank lines, END IF): pull every block of a run towards
    # its right neighbour where the same text is found there as well
    for run in runs:
        for j in range(len(run) - 2, -1, -1):
            i, nx = run[j], run[j + 1]
            lb = len(blocks[i])
            want = place[nx] - lb
            if place[i] != want and want >= 0 and out_lines[want:place[nx]] == blocks[i]:
                lo = 0
                if i > 0:
                    k = i - 1
                    while k >= 0 and place[k] < 0:
                        k -= 1
                    if k >= 0:
                        lo = place[k] + len(blocks[k])
                if want >= lo:
                    place[i] = want
    problems = []
    for s in vs:
        i = index[id(s)]
        if place[i] >= 0:
            continue
        _, node, l0, l1, cause = s
        block = blocks[i]
        cls = type(node).__name__
        if cause == 'no-conservative-handler':
            problems.append(('valid-node-regenerated:no-conservative-handler', f'{cls} line {l0}: {block[0][:120]!r}'))
        elif cause:
            problems.append((f'valid-node-not-verbatim:{cause}', f'{cls} line {l0}: {block[0][:120]!r}'))
        else:
            kind = cls
            stripped = list(block)
            while stripped and not stripped[-1].strip():
                stripped.pop()
            if cls == 'Section' and stripped and len(stripped) < len(block) and find_block(out_lines, stripped, 0) >= 0:
                kind = 'Section:trailing-blank-lines-lost'
            problems.append((f'valid-node-not-verbatim:{kind}', f'{cls} line {l0}-{l1}: {block[0][:120]!r} not written'))
    for run in runs:
        for a, b in zip(run, run[1:]):
            pend = place[a] + len(blocks[a])
            if place[b] > pend:
                extra = out_lines[pend:place[b]]
                pblock, block = blocks[a], blocks[b]
                cls = type(vs[b][1]).__name__
                kind = 'unexpected-text'
                if all(e.strip().startswith('!') and any(e.strip() in p for p in pblock) for e in extra):
                    kind = 'trailing-comment-repeated'
                elif all(e in pblock or e in block for e in extra):
                    kind = 'shared-line-repeated'
                elif all(not e.strip() for e in extra):
                    kind = 'blank-lines'
                elif cls == 'ContinueStmt' and [e.split() for e in extra] == [x.upper().split() for x in block]:
                    kind = 'labelled-do-continue-repeated'
                problems.append((f'extra-text-between-valid-nodes:{kind}', f'after line {vs[a][3]}: {extra[:3]!r}'))
    return problems


def find_block(lines, block, start):
    n, m = len(lines), len(block)
    for i in range(start, n - m + 1):
        if lines[i:i + m] == block:
            return i
    return -1


def sourceless_classes(sf):
    """classes of nodes to which the frontend attaches no source (unmodified tree)"""
    out = set()

    def rec(n):
        if getattr(n, 'source', None) is None:
            out.add(type(n).__name__)
        for c in child_nodes(n):
            rec(c)
    rec(sf.ir)
    return out


def stale_valid_nodes(sf, ignore=()):
    """
    VALID means "the node and its children are unchanged": a node that reports a valid source although a node below it
    is new (no source) or invalidated would be written with stale text. -> list of (class name, detail)
    """
    problems = []

    def rec(n):
        clean = True
        for c in child_nodes(n):
            if not rec(c):
                clean = False
        src = getattr(n, 'source', None)
        if src is None:
            return type(n).__name__ in ignore and clean
        if src.is_valid() and not clean:
            problems.append((type(n).__name__, f'lines {src.lines}'))
        return src.is_valid() and clean

    rec(sf.ir)
    return problems


def unmentioned_variables(sf):
    """
    VALID means unchanged: the source text of a VALID assignment / call must mention every variable that occurs in the
    node's expressions (a substitution that leaves the source VALID would be written with the old names).
    -> list of (class name, variable name, first source line)
    """
    from loki import ir, FindVariables
    out = []
    for n, anc, valid in reached(sf):
        if not valid or not isinstance(n, (ir.Assignment, ir.CallStatement)):
            continue
        text = (n.source.string or '').lower()
        for v in FindVariables().visit(n):
            for part in str(v.name).lower().split('%'):
                if part not in text:        # (substring test: kind suffixes such as 1.0_jprb count as a mention)
                    out.append((type(n).__name__, part, n.source.lines[0]))
    return out


def count_valid_leaves(sf):
    from loki import ir
    return sum(1 for n, anc, v in reached(sf) if v and not isinstance(n, (ir.Comment, ir.CommentBlock)))
