"""
Shard-side context: counters, samples, failure collection by signature,
Hypothesis plumbing (seed, settings, collect-then-continue, budgeted shrink).

A property module (lokiverif/props/cNN.py) defines

    ID, LEVEL, RULE, ASSUMPTIONS, TECHNIQUE            (strings / lists)
    SHARDS = {'quick': n, 'thorough': n}               (optional)
    BUDGET = {'quick': seconds, 'thorough': seconds}   (optional, per shard)
    def run_shard(ctx)                                 explore, report through ctx
    def replay(case, ctx) -> list[(sig, detail)]       re-run the oracle on one stored case

Cases are plain JSON data so that replay files bypass Hypothesis entirely.
"""
import hashlib
import json
import os
import time
import traceback
from collections import Counter

VERIF_DIR = os.path.dirname(os.path.dirname(os.path.abspath(__file__)))
REPO = os.environ.get('VERIF_REPO', '/repo')


def canon(case):
    return json.dumps(case, sort_keys=True, default=str, separators=(',', ':'))


def case_hash(case):
    return hashlib.sha1(canon(case).encode()).hexdigest()[:14]


def derive_seed(*parts):
    h = hashlib.sha256('/'.join(str(p) for p in parts).encode()).digest()
    return int.from_bytes(h[:8], 'big') & 0x7FFFFFFFFFFFFFFF


class LokiRejected(Exception):
    """loki raised on a generated input (counted, bucketed, not a violation by itself)"""


def exc_bucket(exc):
    """(type, innermost loki frame) bucket of an exception"""
    tb = traceback.extract_tb(exc.__traceback__)
    frame = None
    for fr in tb:
        fn = fr.filename.replace('\\', '/')
        if '/loki/' in fn or '/lint_rules/' in fn:
            frame = fr
    if frame is None and tb:
        frame = tb[-1]
    where = '?'
    if frame is not None:
        fn = frame.filename.replace('\\', '/')
        for marker in ('/loki/', '/lint_rules/'):
            if marker in fn:
                fn = marker.strip('/') + '/' + fn.split(marker, 1)[1]
                break
        else:
            fn = os.path.basename(fn)
        where = f'{fn}:{frame.name}'
    return f'{type(exc).__name__}@{where}'


class Ctx:
    MAX_SAMPLES = 5

    def __init__(self, prop_id, tier, seed, shard=0, nshards=1, budget=None, known_sigs=()):
        self.prop_id = prop_id
        self.tier = tier
        self.base_seed = int(seed)
        self.shard = shard
        self.nshards = nshards
        self.seed = derive_seed(seed, prop_id, shard)
        self.t0 = time.time()
        self.budget = budget
        self.known_sigs = set(known_sigs)
        self.evaluations = 0
        self.nontrivial = set()
        self.classes = Counter()
        self.rejected = Counter()
        self.rejected_samples = {}
        self.excluded = Counter()
        self.samples = []
        self.failures = {}        # sig -> {'count', 'case', 'detail', 'size'}
        self.notes = []
        self.exhaustive = None
        self.extra = {}
        self.budget_exhausted = False

    # ---- tier helpers -------------------------------------------------
    @property
    def thorough(self):
        return self.tier == 'thorough'

    def scale(self, quick, thorough):
        """total case count for this tier divided over the shards"""
        n = thorough if self.thorough else quick
        return max(1, n // max(1, self.nshards))

    def time_left(self):
        if self.budget is None:
            return 1e9
        return self.budget - (time.time() - self.t0)

    def out_of_time(self):
        if self.time_left() <= 0:
            self.budget_exhausted = True
            return True
        return False

    # ---- recording ----------------------------------------------------
    def case(self, case, nontrivial, classes=()):
        self.evaluations += 1
        # fall-back sample for checks that do not call ctx.sample themselves: the first (non-trivial, if any) case
        if getattr(self, '_auto_sample', None) is None or (nontrivial and not getattr(self, '_auto_nontrivial', False)):
            if len(canon(case)) < 20000:
                self._auto_sample, self._auto_nontrivial = case, bool(nontrivial)
        if nontrivial:
            self.nontrivial.add(case_hash(case))
        for c in classes:
            self.classes[c] += 1

    def count(self, cls, n=1):
        self.classes[cls] += n

    def sample(self, obj, force=False):
        if len(self.samples) < self.MAX_SAMPLES or force:
            self.samples.append(obj)

    def fail(self, sig, case, detail=''):
        size = len(canon(case))
        ent = self.failures.get(sig)
        if ent is None:
            self.failures[sig] = {'count': 1, 'case': case, 'detail': str(detail)[:2000], 'size': size}
        else:
            ent['count'] += 1
            if size < ent['size']:
                ent.update(case=case, detail=str(detail)[:2000], size=size)

    def reject(self, exc_or_reason, case=None):
        b = exc_bucket(exc_or_reason) if isinstance(exc_or_reason, BaseException) else str(exc_or_reason)
        self.rejected[b] += 1
        if b not in self.rejected_samples and case is not None and len(self.rejected_samples) < 8:
            self.rejected_samples[b] = {'case': case, 'message': str(exc_or_reason)[:300]}
        return b

    def exclude(self, reason, n=1):
        self.excluded[reason] += n

    def note(self, text):
        if text not in self.notes:
            self.notes.append(text)

    # ---- hypothesis plumbing -------------------------------------------
    def settings(self, max_examples, shrink=False, stateful_step_count=None):
        from hypothesis import settings, HealthCheck, Phase
        phases = [Phase.generate] + ([Phase.shrink] if shrink else [])
        kw = dict(max_examples=max_examples, database=None, deadline=None, derandomize=False,
                  report_multiple_bugs=False, suppress_health_check=list(HealthCheck),
                  phases=phases, print_blob=False)
        if stateful_step_count is not None:
            kw['stateful_step_count'] = stateful_step_count
        return settings(**kw)

    def given(self, strategy, check_case, max_examples, label='main', shrink=True):
        """
        Run ``check_case(case, ctx)`` over ``max_examples`` generated cases.
        ``check_case`` reports through ctx (``ctx.case``, ``ctx.fail``); it must
        not raise for property failures. Afterwards, every failure signature
        that is not a listed known finding is shrunk with a budgeted Hypothesis
        shrink pass (same strategy, same seed).
        """
        import hypothesis
        from hypothesis import given, seed

        if self.thorough and max_examples > 400 and not label.startswith('__chunk'):
            # thorough tier: explore in chunks, so that generation stops soon after the time budget is used up
            # (Hypothesis keeps generating the requested number of examples even if the body returns at once)
            k = 0
            while k * 250 < max_examples and not self.out_of_time():
                self.given(strategy, check_case, min(250, max_examples - k * 250), label=f'__chunk{k}:{label}', shrink=shrink)
                k += 1
            return

        seen_before = set(self.failures)
        st_seed = derive_seed(self.seed, label)

        def body(case):
            if self.out_of_time():
                return
            check_case(case, self)

        test = seed(st_seed)(self.settings(max_examples)(given(strategy)(body)))
        test()

        if not shrink:
            return
        new_sigs = [s for s in self.failures if s not in seen_before and s not in self.known_sigs]
        for sig in new_sigs[:4]:
            self._shrink(strategy, check_case, sig, st_seed, max_examples)

    def _shrink(self, strategy, check_case, sig, st_seed, max_examples):
        from hypothesis import given, seed
        t_end = time.time() + (240 if self.thorough else 40)
        outer = self

        class _Hit(Exception):
            pass

        def body(case):
            if time.time() > t_end:
                return
            sub = Ctx(outer.prop_id, outer.tier, outer.base_seed, outer.shard, outer.nshards,
                      known_sigs=outer.known_sigs)
            check_case(case, sub)
            if sig in sub.failures:
                ent = sub.failures[sig]
                cur = outer.failures[sig]
                if ent['size'] <= cur['size']:
                    cur.update(case=ent['case'], detail=ent['detail'], size=ent['size'])
                raise _Hit(sig)

        test = seed(st_seed)(self.settings(max_examples, shrink=True)(given(strategy)(body)))
        try:
            test()
        except BaseException as e:  # noqa: shrink result is what we recorded; Flaky etc. are expected
            if isinstance(e, KeyboardInterrupt):
                raise

    # ---- result -------------------------------------------------------
    def result(self):
        return {
            'shard': self.shard, 'evaluations': self.evaluations,
            'nontrivial': sorted(self.nontrivial),
            'classes': dict(self.classes), 'rejected': dict(self.rejected),
            'rejected_samples': self.rejected_samples,
            'excluded': dict(self.excluded),
            'samples': self.samples or ([{'case': self._auto_sample}] if getattr(self, '_auto_sample', None) is not None else []),
            'failures': self.failures, 'notes': self.notes,
            'exhaustive': self.exhaustive, 'extra': self.extra,
            'budget_exhausted': self.budget_exhausted,
            'wall_s': round(time.time() - self.t0, 2),
        }
