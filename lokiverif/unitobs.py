"""
Shared observation helpers for the object-model properties C17 (clone) and C18 (pickle):

* ``parse_project(case)``        render + parse a ``fprog.gen_units`` project under its enrichment mode
* ``locate(sources, target)``    the object under test (Sourcefile / Module / Subroutine / member)
* ``Inventory(obj)``             everything *owned* by a program unit / source file, found by an
                                 independent walk over dataclass fields (``irtree.walk``; no loki
                                 Visitor): the scopes it owns (unit, contained units, TypeDef and
                                 Associate nodes, in document order), every TypedSymbol occurrence in
                                 its IR, every TypedSymbol inside the attributes stored in its symbol
                                 tables (shape, kind, initial, ...), its real ancestors
* ``scope_tokens``               classification of every symbol occurrence by the *identity* of its
                                 scope: own:<k> (k-th owned scope) / anc:<level> / none / ext /
                                 FOREIGN (owned by another copy)
* ``snapshot``                   (fgen text, structural dump, symbol-table contents, scope tokens,
                                 resolved types of all occurrences) - "X is unchanged" means equal snapshots
"""
from . import irdump
from .irtree import walk


# ------------------------------------------------------------------ project -> loki objects
def render_project(case):
    from .fprog.render import render_file
    return [render_file(f, case.get('layout'))[0] for f in case['files']]


def parse_project(case):
    """returns (sources, definitions) - exceptions from loki propagate to the caller"""
    from loki import Sourcefile
    from loki.frontend import FP
    texts = render_project(case)
    mode = case.get('mode', 'plain')
    sources, defs = [], []
    for text in texts:
        if mode == 'defs':
            sf = Sourcefile.from_source(text, definitions=list(defs), frontend=FP)
        else:
            sf = Sourcefile.from_source(text, frontend=FP)
        sources.append(sf)
        defs.extend(sf.definitions)
    if mode == 'enrich':
        for sf in sources:
            for unit in sf.definitions:
                unit.enrich(list(defs), recurse=True)
    if case.get('rescope_after_parse'):
        for sf in sources:
            for unit in sf.definitions:
                unit.rescope_symbols()
    return sources, defs


def locate(sources, target):
    kind = target[0]
    sf = sources[target[1]]
    if kind == 'file':
        return sf
    if kind in ('module', 'free'):
        return sf[target[2]]
    if kind == 'routine':
        return sf[target[2]].subroutine_map[target[3]]
    if kind == 'member':
        return sf[target[2]].subroutine_map[target[3]].subroutine_map[target[4]]
    raise ValueError(target)


def is_sourcefile(obj):
    from loki import Sourcefile
    return isinstance(obj, Sourcefile)


def fgen_of(obj):
    from loki import fgen
    if is_sourcefile(obj):
        return fgen(obj.ir)
    return fgen(obj)


def dump_of(obj):
    if is_sourcefile(obj):
        return irdump.dump_ir(obj.ir)
    return irdump.dump_ir(obj)


# ------------------------------------------------------------------ inventory
def _roots(value, nodes, exprs, units):
    from loki.program_unit import ProgramUnit
    if value is None or isinstance(value, (str, bytes, bool, int, float)):
        return
    if isinstance(value, ProgramUnit):
        units.append(value)
    elif walk.is_node(value):
        nodes.append(value)
    elif walk.is_expr(value):
        exprs.append(value)
    elif isinstance(value, (tuple, list)):
        for x in value:
            _roots(x, nodes, exprs, units)
    elif isinstance(value, dict):
        for x in value.values():
            _roots(x, nodes, exprs, units)


def type_dump(t):
    """irdump.dump_type without attributes whose value is an empty tuple (shape=() means the same as no shape)"""
    d = irdump.dump_type(t)
    if isinstance(d, dict):
        d = {k: v for k, v in d.items() if v != []}
    return d


_SYMBOL_CLASSES = ('DeferredTypeSymbol', 'Scalar', 'Array', 'VariableSymbol', 'ProcedureSymbol', 'DerivedTypeSymbol')


def loose_type(t):
    """type dump in which the *class* of a symbol inside kind / shape / initial does not matter (a copy may resolve a name
    that is deferred in its source, e.g. DeferredTypeSymbol jpr -> Scalar jpr, or lose a name of an unpickled parent)"""
    if isinstance(t, list):
        if t and isinstance(t[0], str) and t[0] in _SYMBOL_CLASSES:
            return ['Symbol'] + [loose_type(x) for x in t[1:]]
        return [loose_type(x) for x in t]
    if isinstance(t, dict):
        return {k: loose_type(v) for k, v in t.items()}
    return t


class Inventory:
    """what a Sourcefile / ProgramUnit owns (independent walk, document order)"""

    def __init__(self, obj):
        from loki.types import Scope
        from loki.expression import symbols as sym
        self.obj = obj
        self.scopes = []          # owned Scope objects
        self.scope_labels = []    # 'Subroutine:kernel', 'TypeDef:tin', 'Associate'
        self.units = []           # owned ProgramUnits (incl. obj itself if it is one)
        self.typedefs = []
        self.associates = []
        self.occurrences = []     # (TypedSymbol, where) for every occurrence in the IR
        self.attr_occurrences = []  # (TypedSymbol, 'symtab.<attr>') inside stored SymbolAttributes
        self._Scope, self._sym = Scope, sym
        self._stack = []          # enclosing units / TypeDefs during the walk
        self.declared = {}        # id(scope) -> lower-case names declared by a declaration node directly in that scope
        if is_sourcefile(obj):
            if obj.ir is not None:
                self._section(obj.ir, 'Sourcefile')
        else:
            self._unit(obj)
        self.scope_index = {id(s): k for k, s in enumerate(self.scopes)}
        for k, s in enumerate(self.scopes):
            self._table(s)
        # real ancestors
        self.ancestors = []
        if not is_sourcefile(obj):
            p = obj.parent
            while p is not None:
                self.ancestors.append(p)
                p = p.parent
        self.ancestor_index = {id(s): k for k, s in enumerate(self.ancestors)}

    # -- walk
    def _unit(self, u):
        self.units.append(u)
        self.scopes.append(u)
        self.scope_labels.append(f'{type(u).__name__}:{u.name.lower()}')
        self._stack.append(u)
        for sec in ('docstring', 'spec', 'body', 'contains'):
            v = getattr(u, sec, None)
            if v is not None:
                self._section(v, type(u).__name__)
        self._stack.pop()

    def _section(self, value, owner):
        nodes, exprs, units = [], [], []
        _roots(value, nodes, exprs, units)
        for n in nodes:
            self._node(n)
        for u in units:
            self._unit(u)

    def _node(self, n):
        from loki.ir import nodes as ir
        if isinstance(n, self._Scope):
            self.scopes.append(n)
            self.scope_labels.append(type(n).__name__ + (f':{n.name.lower()}' if isinstance(n, ir.TypeDef) else ''))
            if isinstance(n, ir.TypeDef):
                self.typedefs.append(n)
            elif isinstance(n, ir.Associate):
                self.associates.append(n)
        cname = type(n).__name__
        pushed = isinstance(n, ir.TypeDef)
        if pushed:
            self._stack.append(n)
        if cname in ('VariableDeclaration', 'ProcedureDeclaration') and self._stack:
            self.declared.setdefault(id(self._stack[-1]), set()).update(
                str(getattr(x, 'name', x)).lower() for x in n.symbols)
        for fname, v in walk.node_fields(n):
            nodes, exprs, units = [], [], []
            _roots(v, nodes, exprs, units)
            for e in exprs:
                for x in walk.expr_walk(e):
                    if isinstance(x, self._sym.TypedSymbol):
                        self.occurrences.append((x, f'{cname}.{fname}'))
            for c in nodes:
                self._node(c)
            for u in units:
                self._unit(u)
        if pushed:
            self._stack.pop()

    def _table(self, scope):
        for name, attrs in dict.items(scope.symbol_attrs):
            for k, v in attrs.__dict__.items():
                nodes, exprs, units = [], [], []
                _roots(v, nodes, exprs, units)
                for e in exprs:
                    for x in walk.expr_walk(e):
                        if isinstance(x, self._sym.TypedSymbol):
                            ek = ('declared-entry' if str(name).lower() in self.declared.get(id(scope), ()) else
                                  'member-entry' if '%' in name else 'imported-entry' if attrs.__dict__.get('imported')
                                  else 'associate-name-entry' if type(scope).__name__ == 'Associate' else 'undeclared-entry')
                            self.attr_occurrences.append((x, f'symtab.{k}:{ek}'))

    # -- observations
    def symtabs(self):
        out = []
        for s, lab in zip(self.scopes, self.scope_labels):
            # entries 'a%b' of derived-type members are a cache that loki fills whenever a member's type is first looked up
            # (also by our own observation walk): they are not table *contents* and are left out of the snapshot; the
            # types of member symbols are compared through the resolved types of the symbols in the IR ('types')
            out.append([lab, {str(k): type_dump(v) for k, v in sorted(dict.items(s.symbol_attrs)) if '%' not in str(k)}])
        return out

    def token(self, symbol, foreign=()):
        sc = symbol.scope
        if sc is None:
            return 'none'
        i = id(sc)
        if i in self.scope_index:
            return f'own:{self.scope_index[i]}'
        if i in self.ancestor_index:
            return f'anc:{self.ancestor_index[i]}'
        for tag, ids in foreign:
            if i in ids:
                return f'FOREIGN:{tag}'
        return 'ext'

    def scope_tokens(self, foreign=()):
        return [self.token(s, foreign) for s, _ in self.occurrences]

    def attr_tokens(self, foreign=()):
        return [self.token(s, foreign) for s, _ in self.attr_occurrences]

    def types(self):
        out = []
        for s, _ in self.occurrences:
            try:
                out.append(type_dump(s.type))
            except Exception as e:  # noqa: a broken scope chain must be reported, not crash the harness
                out.append(f'<raises {type(e).__name__}>')
        return out

    def owned_ids(self):
        return set(self.scope_index)


def _is_plain_deferred(x):
    return isinstance(x, dict) and len(x) == 1 and str(x.get('dtype', '')).lower().endswith('deferred')


def no_lazy_deferred(x):
    """
    A symbol without a table entry (type None) gets an entry SymbolAttributes(DEFERRED) as soon as anything clones or
    re-creates it with its scope attached (TypedSymbol.__init__ stores a deferred type) - fgen, `variables` of a derived
    type parent, and our own observation walk do that. "No type" and "deferred type without any attribute" are therefore
    the same observation: both are mapped to None (in tables: the entry is left out).
    """
    if _is_plain_deferred(x):
        return None
    if isinstance(x, dict):
        return {k: no_lazy_deferred(v) for k, v in x.items()}
    if isinstance(x, list):
        return [no_lazy_deferred(v) for v in x]
    return x


def snapshot(obj, foreign=(), inv=None):
    """everything that must stay the same while *another* copy is edited"""
    inv = inv or Inventory(obj)
    snap = {}
    try:
        snap['fgen'] = fgen_of(obj)
    except Exception as e:  # noqa: an edited copy may be left in a state fgen cannot print
        snap['fgen'] = f'<fgen raises {type(e).__name__}>'
    snap['dump'] = no_lazy_deferred(dump_of(obj))
    snap['symtab'] = [[lab, {k: v for k, v in tab.items() if v is not None and not _is_plain_deferred(v)}]
                      for lab, tab in inv.symtabs()]
    snap['scoping'] = inv.scope_tokens(foreign)
    snap['attr-scoping'] = inv.attr_tokens(foreign)
    # the same without the cache entries 'a%b' of derived-type members: loki adds such an entry whenever the type of a member
    # is first looked up (also by inv.types() below), so their number is not a state of the unit (see symtabs())
    snap['attr-scoping-declared'] = [t for t, (_, w) in zip(snap['attr-scoping'], inv.attr_occurrences)
                                     if not w.endswith(':member-entry')]
    snap['types'] = no_lazy_deferred(inv.types())
    snap['names'] = [s.name.lower() for s, _ in inv.occurrences]
    return snap


SNAP_KEYS = ('fgen', 'dump', 'symtab', 'scoping', 'attr-scoping-declared', 'types')


def snapshot_diff(a, b):
    """None or (component, human-readable first difference)"""
    for k in SNAP_KEYS:
        if a[k] != b[k]:
            if k == 'fgen':
                la, lb = a[k].splitlines(), b[k].splitlines()
                for i, (x, y) in enumerate(zip(la, lb)):
                    if x != y:
                        return k, f'line {i + 1}: {x.strip()!r} -> {y.strip()!r}'
                return k, f'{len(la)} lines -> {len(lb)} lines'
            return k, irdump.first_difference(a[k], b[k]) or 'differs'
    return None


# ------------------------------------------------------------------ presence probes for the listed known findings
_DEFECTS = None

_T_SRC = """
module lv_tm
  implicit none
  type lv_t
    integer :: n
  end type lv_t
contains
  subroutine lv_h(a)
    integer, intent(in) :: a
  end subroutine lv_h
end module lv_tm
"""
_K_SRC = """
subroutine lv_k(a)
  use lv_tm, only: lv_t, lv_h
  implicit none
  integer, intent(inout) :: a
  type(lv_t) :: t
  integer :: h
  h = 2
  print *, 'v', h
  call lv_i(a)
contains
  subroutine lv_i(b)
    integer, intent(inout) :: b
    b = b + h
  end subroutine lv_i
end subroutine lv_k
"""
_P_SRC = """
subroutine lv_p(a)
  use lv_tm, only: lv_h
  implicit none
  integer, intent(inout) :: a
  call lv_h(a)
end subroutine lv_p
"""
_U_SRC = """
module lv_u
  use lv_tm
  implicit none
contains
  subroutine lv_r(a)
    integer, intent(inout) :: a
    call lv_h(a)
  end subroutine lv_r
end module lv_u
"""
_AA_SRC = """
subroutine lv_aa(a, b)
  integer, intent(inout) :: a, b
  associate(a => a)
    b = a
  end associate
end subroutine lv_aa
"""
_PM_T = """
module lv_pt
  implicit none
  type lv_po
    real(kind=8) :: va(2)
  end type lv_po
end module lv_pt
"""
_PM_SRC = """
module lv_pm
  use lv_pt, only: lv_po
  implicit none
  type(lv_po) :: lv
contains
  subroutine lv_pk(a)
    real(kind=8), intent(inout) :: a
    a = lv%va(1)
  end subroutine lv_pk
end module lv_pm
"""
_S_SRC = """
module lv_s
  implicit none
  type lv_st
    integer :: s
  end type lv_st
  type(lv_st) :: lv
contains
  subroutine lv_sk(a)
    integer, intent(inout) :: a
    associate(lv => lv%s)
      a = lv
    end associate
  end subroutine lv_sk
end module lv_s
"""
_M_SRC = """
module lv_m
  implicit none
  type lv_q
    integer :: n
  end type lv_q
  type(lv_q) :: v
end module lv_m
"""


def known_defects():
    """
    Which of the *listed* root causes (known_findings.d/C17.txt, C18.txt) are present in the tree under test.
    Each probe is a fixed five-line experiment on a fixed tiny source, so the answer is a pure function of the
    tree. The generators switch the trigger of a root cause off only while its probe says 'present'; once a fix
    lands the trigger is generated again and anything that still fails surfaces as a new violation.
    """
    global _DEFECTS
    if _DEFECTS is not None:
        return _DEFECTS
    import json
    import os
    import pickle
    # the runner's parent process evaluates the probes while it replays the known findings; its shards (same tree, same
    # run) inherit the answer through the environment instead of repeating ~3 s of parsing each
    envkey = 'LOKIVERIF_UNIT_DEFECTS'
    tree = os.environ.get('VERIF_REPO', '/repo')
    if os.environ.get(envkey):
        try:
            cached = json.loads(os.environ[envkey])
            if cached.get('tree') == tree:
                _DEFECTS = cached['defects']
                return _DEFECTS
        except ValueError:
            pass
    from loki import Sourcefile
    from loki.expression import symbols as sym
    from loki.expression.operations import Cast
    from loki.types import DerivedType
    def tmod_defs():
        return list(Sourcefile.from_source(_T_SRC).definitions)

    def clone_tokens():
        k = Sourcefile.from_source(_K_SRC, definitions=tmod_defs())['lv_k']
        own = Inventory(k).owned_ids()
        inv = Inventory(k.clone())
        return [(type(s).__name__, w, inv.token(s, [('src', own)])) for s, w in inv.occurrences]

    def p_dtsym():
        return any(cls == 'DerivedTypeSymbol' and t.startswith('FOREIGN') for cls, w, t in clone_tokens())

    def p_print():
        return any(w.startswith('PrintStmt') and t.startswith('FOREIGN') for cls, w, t in clone_tokens())

    def p_cast():
        pickle.loads(pickle.dumps(Cast('real', (sym.IntLiteral(1),), kind=sym.IntLiteral(8))))
        return False

    def p_member():
        plain = Sourcefile.from_source(_K_SRC)['lv_k']
        p = pickle.loads(pickle.dumps(plain))
        return p.members[0].parent is not p

    def p_repickle():
        m = Sourcefile.from_source(_M_SRC)['lv_m']
        pickle.dumps(pickle.loads(pickle.dumps(m)))
        return False

    def p_typedef():
        m = Sourcefile.from_source(_M_SRC)['lv_m']
        t = dict.get(m.clone().symbol_attrs, 'v')
        return isinstance(t.dtype, DerivedType) and t.dtype.typedef is m['lv_q']

    def p_proclink():
        pr = Sourcefile.from_source(_P_SRC, definitions=tmod_defs())['lv_p']
        return pickle.loads(pickle.dumps(pr)) != pr

    def p_rescoping():
        # a module procedure calls a routine that the module imports by an unqualified USE; enrich() types the import but
        # leaves the call name an unattached deferred symbol; __setstate__ -> rescope_symbols() attaches and resolves it
        um = Sourcefile.from_source(_U_SRC)['lv_u']
        um.enrich(tmod_defs(), recurse=True)
        kinds = [type(s).__name__ for s, w in Inventory(um).occurrences if w == 'CallStatement.name']
        kinds2 = [type(s).__name__ for s, w in Inventory(pickle.loads(pickle.dumps(um))).occurrences if w == 'CallStatement.name']
        return kinds != kinds2

    def p_importlink():
        fsrc = Sourcefile.from_source(_T_SRC + _P_SRC)
        t = dict.get(fsrc.clone()['lv_p'].symbol_attrs, 'lv_h')
        return t is not None and getattr(t, 'module', None) is fsrc['lv_tm']

    def p_shadow_clone():
        ac = Sourcefile.from_source(_AA_SRC)['lv_aa'].clone()
        assoc = Inventory(ac).associates[0]
        return assoc.associations[0][0].scope is assoc

    def p_shadow_pickle():
        sm = Sourcefile.from_source(_S_SRC)['lv_s']
        return pickle.loads(pickle.dumps(sm)) != sm

    def p_member_cache():
        # a module procedure uses a component of a module variable whose type is imported: the routine is unpickled and
        # rescoped before it is re-attached to the module and caches a (deferred) entry 'lv%va' in its own table
        m = Sourcefile.from_source(_PM_SRC)['lv_pm']
        p = pickle.loads(pickle.dumps(m))
        return set(dict.keys(p['lv_pk'].symbol_attrs)) != set(dict.keys(m['lv_pk'].symbol_attrs))

    d = {}
    for key, fn in (('parentless-rescope-caches-member-entries', p_member_cache),('dtsym-not-rescoped', p_dtsym), ('print-not-rescoped', p_print), ('cast-unpicklable', p_cast),
                    ('member-parent-lost', p_member), ('module-repickle-raises', p_repickle), ('typedef-link-to-source', p_typedef),
                    ('procedure-link-dropped', p_proclink), ('unpickle-rescoping-not-identity', p_rescoping),
                    ('clone-keeps-import-links-into-source', p_importlink),
                    ('clone-attaches-selector-to-shadowing-associate', p_shadow_clone),
                    ('selector-of-shadowing-associate-misscoped', p_shadow_pickle)):
        try:
            d[key] = bool(fn())
        except Exception:  # noqa: a probe that cannot even run counts as 'root cause present' (trigger stays off)
            d[key] = True
    _DEFECTS = d
    os.environ[envkey] = json.dumps({'tree': tree, 'defects': d})
    return d
