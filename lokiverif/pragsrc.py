"""
Pragma-dense Fortran program units for C16 (attach/detach of pragmas, pragma regions, dataflow info).

``unit_source()`` is a hypothesis strategy that yields ``{"unit": kind, "name": str, "src": text}``
where *kind* is ``subroutine`` | ``function`` | ``module``.  The text is valid free-form Fortran
(all names declared, pragmas are comments to a compiler).  What varies is *where pragmas sit*:

* specification part: before / after / between variable declarations, procedure declarations
  (``external``), a derived-type definition (also *inside* its body), an interface block (also inside
  the interface routine), the ``implicit none`` / ``use`` lines; at the very start and end of the
  part; runs of several pragmas; a comment between a pragma and the following declaration;
* executable part: before / after counted loops, ``do while``, calls, assignments, if / else-if,
  select case, select type (``type is`` / ``class is`` / ``class default`` branches on a polymorphic dummy argument
  ``class(t_base) :: obj`` of a small locally defined type with one extension; the frontend does not read
  ``class(*)`` declarations), where, associate, forall; first / last item of every nested body; runs of pragmas;
* region pragmas ``!$kw marker`` ... ``!$kw end marker`` planted around a slice of one body (same
  depth: nested, crossing, repeated markers, mismatching keyword or marker) and *stray* start / end
  pragmas dropped anywhere (ending a region at another depth, unmatched starts and ends);
* keywords loki / acc / omp in several spellings, multi-word markers, pragma parameters,
  continuation-line pragmas.

The body statements use a small fixed pool of expressions; nothing is executed.
"""
from hypothesis import strategies as st

MARKERS = ['x', 'y', 'remove', 'data', 'kernels']
KEYWORDS = ['loki', 'loki', 'loki', 'acc', 'omp', 'LOKI', 'Loki']
PLAIN_PRAGMAS = [
    ('loki', 'some-pragma vars(x, y)'), ('loki', 'loop-fusion group(g1)'), ('loki', 'inline'),
    ('loki', 'routine seq'), ('acc', 'loop vector'), ('omp', 'parallel do private(i)'),
    ('acc', 'data present(a, b) &\n!$acc&   copyin(tmp)'), ('loki', 'driver-loop'), ('LOKI', 'Separator'),
    ('loki', 'k_caching'), ('omp', 'simd'), ('loki', 'vector-reduction( + : x )'), ('loki', 'dependency-boundary'),
]
ASSIGNS = [
    'a(i) = b(i, 1) + x', 'x = y * 2.0d0', 'tmp(i) = a(i) ** 2', 'b(i, j) = tmp(i) - fext(x)', 'y = sum(a)',
    'a(:) = 0.0d0', 'k = k + 1', 'd%v(1) = x', 'd%cnt = k', 'c(i) = a(i)', 'tmp(1:n) = a(1:n) * y',
]
CALLS = ['call ext_sub(a, n)', 'call ext_sub(tmp, k)', 'call other(x, y, flag)', 'call other(d%v(2), y, .true.)']
CONDS = ['flag', 'x > y', 'k == 1 .and. flag', 'a(1) > 0.0d0', '.not. flag']
LOOPS = ['1, n', '1, m', '2, n - 1', '1, n, 2', 'm, 1, -1']
LOOPVARS = ['i', 'j', 'l', 'll']


class _G:
    def __init__(self, draw, flags=None):
        self.draw = draw
        self.flags = flags or {'typedef': True, 'carr': True, 'associate': True, 'bare_end': True}
        f = self.flags
        ok = lambda t: (f['typedef'] or 'd%' not in t) and (f['carr'] or 'c(' not in t)   # noqa
        self.assigns = [t for t in ASSIGNS if ok(t)]
        self.calls = [t for t in CALLS if ok(t)]
        self.nreg = 0
        self.nname = 0
        self.nseltype = 0
        self.narrowed = 0         # >0 while inside a TYPE IS / CLASS IS branch (``obj`` has a narrower type there)

    # ---- pragmas ----------------------------------------------------------
    def plain_pragma(self):
        kw, text = self.draw(st.sampled_from(PLAIN_PRAGMAS))
        return ['pragma', kw, text]

    def marker(self):
        """(start text, end text) of a region pragma pair"""
        m = self.draw(st.sampled_from(MARKERS))
        form = self.draw(st.integers(0, 9))
        if form == 0:
            return m.upper(), f'end {m}'
        if form == 1:
            return m + ' foo(bar)', f'end {m}'
        if form == 2:
            return 'parallel ' + m, f'end parallel {m}'
        return m, f'end {m}'

    def stray(self):
        """a start or end region pragma with no partner planted next to it"""
        kw = self.draw(st.sampled_from(KEYWORDS))
        m = self.draw(st.sampled_from(MARKERS))
        if self.draw(st.booleans()):
            return ['pragma', kw, m]
        if self.flags.get('bare_end') and self.draw(st.integers(0, 5)) == 0:
            return ['pragma', kw, 'end']
        return ['pragma', kw, self.draw(st.sampled_from(['end ', 'end ', 'END '])) + m]

    def pragma_run(self, p_any=0.45):
        """0..3 consecutive pragmas (plain or stray region pragmas), possibly with a comment"""
        d = self.draw
        if d(st.integers(0, 99)) >= int(100 * p_any):
            return []
        n = d(st.sampled_from([1, 1, 1, 2, 2, 3]))
        out = []
        for _ in range(n):
            out.append(self.stray() if d(st.integers(0, 3)) == 0 else self.plain_pragma())
        if d(st.integers(0, 7)) == 0:
            out.insert(d(st.integers(0, len(out))), ['comment', 'a comment next to pragmas'])
        return out

    def plant_regions(self, items):
        """wrap slices of one body in matching (or nearly matching) region pragmas"""
        d = self.draw
        for _ in range(d(st.sampled_from([0, 0, 1, 1, 2]))):
            if not items and d(st.booleans()):
                continue
            i = d(st.integers(0, len(items)))
            j = d(st.integers(i, len(items)))
            kw = d(st.sampled_from(KEYWORDS))
            start, end = self.marker()
            end_kw = kw
            variant = d(st.integers(0, 11))
            if variant == 0:
                end_kw = d(st.sampled_from(KEYWORDS))          # keyword may differ (case or name)
            elif variant == 1:
                end = 'end ' + d(st.sampled_from(MARKERS))     # marker may differ
            elif variant == 2:
                end = end.upper()
            self.nreg += 1
            items.insert(j, ['pragma', end_kw, end])
            items.insert(i, ['pragma', kw, start])
        return items

    # ---- executable statements ----------------------------------------------
    def body(self, depth, lo=0, hi=3, pragmas=True):
        d = self.draw
        n = d(st.integers(lo, hi if depth < 1 else min(hi, 2)))
        items = []
        for _ in range(n):
            if pragmas:
                items.extend(self.pragma_run())
            items.append(self.stmt(depth))
        if pragmas:
            items.extend(self.pragma_run(0.35))
            items = self.plant_regions(items)
        return items

    def seltype(self, depth):
        """SELECT TYPE on the polymorphic dummy ``obj``; branch bodies are ordinary pragma-dense bodies"""
        d = self.draw
        self.nseltype += 1
        guards = ['type is (t_base)', 'class is (t_ext)', 'type is (t_ext)', 'class is (t_base)']
        first = d(st.integers(0, len(guards) - 1))
        guards = (guards[first:] + guards[:first])[:d(st.integers(1, 3))]
        selector = 'obj'          # the frontend does not implement an associate name (``zo => obj``) here
        cases = []
        for gd in guards:
            # inside a guarded branch ``obj`` has the guard's type: a nested SELECT TYPE (obj) with the same guard
            # pool would be invalid there; nesting happens in CLASS DEFAULT branches (and through other constructs
            # in them) only
            self.narrowed += 1
            cases.append([gd, self.body(depth + 1, 1, 2)])
            self.narrowed -= 1
        dflt = self.body(depth + 1, 1, 2) if d(st.booleans()) else None
        name = None
        if d(st.integers(0, 7)) == 0:
            self.nname += 1
            name = f'st{self.nname}'
        return ['seltype', selector, cases, dflt, name]

    def stmt(self, depth):
        d = self.draw
        kinds = ['assign', 'assign', 'call', 'call', 'call', 'comment', 'ifline', 'print']
        if depth < 3:
            kinds += ['loop', 'loop', 'loop', 'loop', 'loop', 'while', 'while', 'if', 'if', 'select', 'where', 'forall']
            if self.flags['associate']:
                kinds.append('associate')
            if self.flags.get('seltype') and not self.narrowed:
                kinds += ['seltype', 'seltype']
        k = d(st.sampled_from(kinds))
        if k == 'assign':
            return ['assign', d(st.sampled_from(self.assigns))]
        if k == 'call':
            return ['call', d(st.sampled_from(self.calls))]
        if k == 'comment':
            return ['comment', 'plain comment mentioning !$loki end x']
        if k == 'print':
            return ['print', "print *, 'x', x"]
        if k == 'ifline':
            return ['assign', f'if ({d(st.sampled_from(CONDS))}) {d(st.sampled_from(self.assigns))}']
        if k == 'loop':
            name = None
            if d(st.integers(0, 9)) == 0:
                self.nname += 1
                name = f'lp{self.nname}'
            return ['loop', f'{LOOPVARS[depth]} = {d(st.sampled_from(LOOPS))}', self.body(depth + 1), name]
        if k == 'while':
            return ['while', d(st.sampled_from(CONDS)), self.body(depth + 1, 1, 2)]
        if k == 'if':
            branches = [[d(st.sampled_from(CONDS)), self.body(depth + 1)]]
            for _ in range(d(st.sampled_from([0, 0, 1, 2]))):
                branches.append([d(st.sampled_from(CONDS)), self.body(depth + 1, 1, 2)])
            els = self.body(depth + 1, 1, 2) if d(st.booleans()) else None
            return ['if', branches, els]
        if k == 'select':
            cases = [[sel, self.body(depth + 1, 1, 2)] for sel in ['1', '2, 3', '4:6'][:d(st.integers(1, 3))]]
            dflt = self.body(depth + 1, 1, 2) if d(st.booleans()) else None
            return ['select', cases, dflt]
        if k == 'seltype':
            return self.seltype(depth)
        if k == 'where':
            def wbody():
                out = []
                for _ in range(d(st.integers(1, 2))):
                    if d(st.integers(0, 3)) == 0:
                        out.append(self.plain_pragma())
                    out.append(['assign', d(st.sampled_from(['a = tmp', 'tmp = 0.0d0', 'a = a + 1.0d0']))])
                if d(st.integers(0, 4)) == 0:
                    out.append(self.plain_pragma())
                return out
            branches = [['a > 0.0d0', wbody()]]
            if d(st.booleans()):
                branches.append(['a < -1.0d0', wbody()])
            dflt = wbody() if d(st.booleans()) else None
            return ['where', branches, dflt]
        if k == 'associate':
            sel = ['zz => d%v', 'zz => a, zx => x'] if self.flags['typedef'] else ['zz => a, zx => x', 'zz => tmp']
            return ['associate', d(st.sampled_from(sel)), self.body(depth + 1, 1, 3)]
        if k == 'forall':
            out = []
            if d(st.integers(0, 2)) == 0:
                out.append(self.plain_pragma())
            out.append(['assign', 'tmp(iq) = a(iq)'])
            return ['forall', 'iq = 1:n', out]
        raise AssertionError(k)


# ---------------------------------------------------------------------------
# rendering
# ---------------------------------------------------------------------------

def _kw(s, upper):
    return s.upper() if upper else s


def render_items(items, ind, L, out):
    p = ' ' * ind
    up = L['upper']
    step = L['indent']
    for it in items:
        k = it[0]
        if k == 'pragma':
            pp = p if L['indent_pragmas'] else ''
            text = f'!${it[1]} {it[2]}' if it[2] else f'!${it[1]}'
            for ln in text.split('\n'):
                out.append(pp + ln)
        elif k == 'comment':
            out.append(f'{p}! {it[1]}')
        elif k in ('assign', 'call', 'print', 'decl'):
            out.append(p + it[1])
        elif k == 'loop':
            name = f'{it[3]}: ' if it[3] else ''
            out.append(f'{p}{name}{_kw("do", up)} {it[1]}')
            render_items(it[2], ind + step, L, out)
            out.append(f'{p}{_kw("end do", up)}' + (f' {it[3]}' if it[3] else ''))
        elif k == 'while':
            out.append(f'{p}{_kw("do while", up)} ({it[1]})')
            render_items(it[2], ind + step, L, out)
            out.append(f'{p}{_kw("end do", up)}')
        elif k == 'if':
            for n, (cond, body) in enumerate(it[1]):
                out.append(f'{p}{_kw("if" if n == 0 else "else if", up)} ({cond}) {_kw("then", up)}')
                render_items(body, ind + step, L, out)
            if it[2] is not None:
                out.append(f'{p}{_kw("else", up)}')
                render_items(it[2], ind + step, L, out)
            out.append(f'{p}{_kw("end if", up)}')
        elif k == 'select':
            out.append(f'{p}{_kw("select case", up)} (k)')
            for sel, body in it[1]:
                out.append(f'{p}{_kw("case", up)} ({sel})')
                render_items(body, ind + step, L, out)
            if it[2] is not None:
                out.append(f'{p}{_kw("case default", up)}')
                render_items(it[2], ind + step, L, out)
            out.append(f'{p}{_kw("end select", up)}')
        elif k == 'seltype':
            name = f'{it[4]}: ' if it[4] else ''
            out.append(f'{p}{name}{_kw("select type", up)} ({it[1]})')
            for guard, body in it[2]:
                head, _, rest = guard.partition(' (')
                out.append(f'{p}{_kw(head, up)} ({rest}')
                render_items(body, ind + step, L, out)
            if it[3] is not None:
                out.append(f'{p}{_kw("class default", up)}')
                render_items(it[3], ind + step, L, out)
            out.append(f'{p}{_kw("end select", up)}' + (f' {it[4]}' if it[4] else ''))
        elif k == 'where':
            for n, (cond, body) in enumerate(it[1]):
                out.append(f'{p}{_kw("where" if n == 0 else "elsewhere", up)} ({cond})')
                render_items(body, ind + step, L, out)
            if it[2] is not None:
                out.append(f'{p}{_kw("elsewhere", up)}')
                render_items(it[2], ind + step, L, out)
            out.append(f'{p}{_kw("end where", up)}')
        elif k == 'associate':
            out.append(f'{p}{_kw("associate", up)} ({it[1]})')
            render_items(it[2], ind + step, L, out)
            out.append(f'{p}{_kw("end associate", up)}')
        elif k == 'forall':
            out.append(f'{p}{_kw("forall", up)} ({it[1]})')
            render_items(it[2], ind + step, L, out)
            out.append(f'{p}{_kw("end forall", up)}')
        else:
            raise AssertionError(it)
    return out


# ---------------------------------------------------------------------------
# specification part
# ---------------------------------------------------------------------------

def _spec(g, unit):
    """list of items (decl lines / pragmas / comments / nested typedef+interface text) for the spec"""
    d = g.draw
    gap = lambda p=0.4: g.pragma_run(p)   # noqa
    items = []
    items += gap(0.25)
    if d(st.booleans()):
        items.append(['decl', 'use iso_fortran_env, only: real64'])
        items += gap(0.25)
    items.append(['decl', 'implicit none'])
    items += gap()
    if unit != 'module':
        items.append(['decl', 'integer, intent(in) :: n, m'])
        items += gap()
        items.append(['decl', 'real(kind=8), intent(inout) :: a(n), b(n, m)'])
        items += gap()
        if g.flags['carr']:
            if d(st.booleans()):
                items.append(['pragma', 'loki', 'dimension(n)'])
            items.append(['decl', 'real(kind=8), intent(inout) :: c(:)'])
            items += gap()
        items.append(['decl', 'logical, intent(in) :: flag'])
        items += gap()
        if g.flags.get('seltype'):
            items += [['decl', 'type t_base'], ['decl', '  integer :: tag'], ['decl', 'end type t_base']]
            items += gap(0.3)
            items += [['decl', 'type, extends(t_base) :: t_ext'], ['decl', '  real(kind=8) :: w'], ['decl', 'end type t_ext']]
            items += gap()
            items.append(['decl', 'class(t_base), intent(in) :: obj'])
            items += gap()
    else:
        items.append(['decl', 'integer, parameter :: n = 8, m = 4'])
        items += gap()
        if g.flags['carr']:
            if d(st.booleans()):
                items.append(['pragma', 'loki', 'dimension(n)'])
            items.append(['decl', 'real(kind=8), allocatable :: c(:)'])
            items += gap()
        items.append(['decl', 'real(kind=8) :: a(n), b(n, m)'])
        items += gap()
        items.append(['decl', 'logical :: flag = .false.'])
        items += gap()
    # derived type with pragmas inside its body
    if g.flags['typedef']:
        items.append(['decl', 'type t_loc'])
        items += [['decl', '  ' + x[1]] if x[0] == 'decl' else x for x in
                  (gap(0.3) + [['decl', 'real(kind=8) :: v(4)']] + gap(0.3) + [['decl', 'integer :: cnt']] + gap(0.3))]
        items.append(['decl', 'end type t_loc'])
        items += gap()
        items.append(['decl', 'type(t_loc) :: d'])
        items += gap()
    # interface block with pragmas around and inside
    if d(st.integers(0, 2)) == 0:
        items.append(['decl', 'interface'])
        items.append(['decl', '  subroutine other(p, q, r)'])
        items += gap(0.4)
        items.append(['decl', '    real(kind=8), intent(inout) :: p, q'])
        items += gap(0.3)
        items.append(['decl', '    logical, intent(in) :: r'])
        items.append(['decl', '  end subroutine other'])
        items.append(['decl', 'end interface'])
        items += gap()
    else:
        items.append(['decl', 'external :: other'])
        items += gap()
    items.append(['decl', 'integer :: i, j, k, l, ll, iq'])
    items += gap()
    items.append(['decl', 'real(kind=8), external :: fext'])
    items += gap()
    items.append(['decl', 'external :: ext_sub'])
    items += gap()
    items.append(['decl', 'real(kind=8) :: x, y, tmp(n)'])
    items += gap(0.5)
    return items


@st.composite
def unit_source(draw, units=('subroutine', 'subroutine', 'subroutine', 'function', 'module'),
                allow_typedef=True, allow_associate=True, allow_bare_end=True, allow_select_type=True):
    """``allow_*=False`` switches a construct off (exclusion by construction of listed findings)"""
    flags = {'typedef': allow_typedef and draw(st.integers(0, 2)) == 0, 'carr': draw(st.booleans()),
             'associate': allow_associate, 'bare_end': allow_bare_end}
    g = _G(draw, flags)
    unit = draw(st.sampled_from(units))
    # SELECT TYPE needs a polymorphic object: an extra polymorphic dummy argument of the routine
    flags['seltype'] = allow_select_type and unit != 'module' and draw(st.integers(0, 9)) < 4
    obj = ', obj' if flags['seltype'] else ''
    L = {'upper': draw(st.integers(0, 3)) == 0, 'indent': draw(st.sampled_from([2, 2, 4])),
         'indent_pragmas': draw(st.integers(0, 3)) > 0}
    out = []
    name = 'c16_unit'
    member = ['subroutine member(z)', '  real(kind=8), intent(inout) :: z', '  !$loki member-pragma',
              '  z = z + 1.0d0', '  !$loki end x', 'end subroutine member']
    if unit == 'module':
        out.append(f'module {name}')
        render_items(_spec(g, unit), 2, L, out)
        out.append('contains')
        out += ['  ' + ln for ln in member]
        out.append(f'end module {name}')
    else:
        if unit == 'subroutine':
            out.append(f'subroutine {name}(n, m, a, b, {"c, " if flags["carr"] else ""}flag{obj})')
        else:
            out.append(f'function {name}(n, m, a, b, {"c, " if flags["carr"] else ""}flag{obj}) result(res)')
        spec = _spec(g, unit)
        if unit == 'function':
            spec.append(['decl', 'real(kind=8) :: res'])
        render_items(spec, 2, L, out)
        body = [['assign', 'k = 0'], ['assign', 'x = 0.0d0'], ['assign', 'y = 1.0d0']] if draw(st.booleans()) else []
        body += g.body(0, 1, 4)
        if flags['seltype'] and not g.nseltype:
            # the argument is there: make sure that the construct is, too (at a drawn top-level position)
            body.insert(draw(st.integers(0, len(body))), g.seltype(0))
        if unit == 'function':
            body.append(['assign', 'res = x'])
            body += g.pragma_run(0.3)
        render_items(body, 2, L, out)
        if draw(st.integers(0, 3)) == 0:
            out.append('contains')
            out += ['  ' + ln for ln in member]
        out.append(f'end {unit} {name}')
    return {'unit': unit, 'name': name, 'src': '\n'.join(out) + '\n', 'typedef': flags['typedef'] or flags['seltype'],
            'select_type': g.nseltype}
