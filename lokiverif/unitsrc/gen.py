"""
Hypothesis strategies for multi-unit Fortran *file models* with ground truth (C19, C20).

A file model is plain JSON (all identifiers lower-case; letter case is a layout choice):

  file    = {'units': [module | routine]}
  module  = {'k': 'module', 'name', 'uses': [use], 'access': None|'private'|'public', 'vars': [[name, int]],
             'strs': [[name, text]], 'types': [typedef], 'ifaces': [iface], 'routines': [routine]}
  routine = {'k': 'sub'|'fun', 'name', 'sig': 'x'|'r'|'this'|'thisr'|'fun', 'this': type name|None,
             'prefix': [words], 'typed': None|text (function result type written in the header),
             'result': None|name, 'uses': [use], 'ifaces': [iface], 'locals': [names], 'arrs': [names],
             'chars': [names], 'objs': [[var, type name, dim|None]], 'body': [stmt], 'contains': [routine],
             'end': 'full'|'noname'|'bare'}
  use     = {'module', 'only': None | [[local, remote|None]], 'renames': [[local, remote]], 'nature': None|'intrinsic'|'dcolon'}
  typedef = {'name', 'attrs': [text], 'comps': [[name, None|type name]], 'procs': [proc]}
  proc    = ['proc', name, target|None, [attrs], iface|None] | ['generic', name, [targets]] | ['final', target]
  iface   = ['generic', name, [module procedure names], form] | ['abstract', [ibody]] | ['plain', [ibody]]
            | ['operator', text, [names]];   ibody = [kind 'sub'|'fun', name, sig]
  stmt    = ['call', [name parts], [arg exprs], opts] | ['assign', lhs expr, expr, opts] | ['if1', cond, stmt]
          | ['if', [[cond, body]...], else body|None] | ['do', var, lo, hi, body, form] | ['while', cond, body]
          | ['select', expr, [[vals, body]...], default|None] | ['assoc', name, expr, body]
          | ['print', [exprs], opts] | ['continue', opts] | ['comment', text] | ['pragma', text]
            opts = {'label': int}   form = 'plain'|'label'|'named'
  expr    = ['i', n] | ['v', name] | ['e', name, index expr] | ['s', text, quote] | ['b', op, l, r]
          | ['f', name, [args]] | ['p', expr] | ['n', expr] (.not.)

Every routine has the signature (x) [integer, inout], (r) [real, inout], (this, x), (this, r) or is an
integer function (xin), so that any reference is type-correct and every file compiles (selftest.py).

``truth(model)`` derives the facts C19 compares (same JSON shape as facts.extract()).
"""
from hypothesis import strategies as st

LETTERS = 'abcd'
MOD_NAMES = ['mod_a', 'b_mod', 'modc', 'use_mod', 'module_d', 'type_mod', 'end_mod', 'interface_m']
SUB_STEMS = ['sub', 'call', 'k', 'do', 'end', 'subroutine', 'function', 'use', 'interface', 'contains', 'type',
             'module', 'procedure', 'if']
FUN_STEMS = ['fn', 'function', 'real', 'integer', 'f', 'call', 'sub', 'end']   # (a FUNCTION named subroutine_x is one more way into the listed ModulePattern finding)
TYPE_STEMS = ['t', 'type', 'class', 'ty', 'end_type', 'procedure']
BIND_NAMES = ['go', 'run', 'procedure_p', 'generic_g', 'call_b', 'final_f', 'p', 'pass_it', 'contains_b']
IFACE_STEMS = ['gen', 'interface', 'gi', 'module', 'procedure', 'end_interface']
KW_VARS = ['call_count', 'real_x', 'type_id', 'integer_n', 'use_flag', 'module_v', 'subroutine_s', 'function_f',
           'interface_i', 'contains_c', 'end_v', 'endif_v', 'procedure_p', 'generic_g', 'logical_l',
           'character_c', 'class_c', 'if_call', 'do_i', 'print_p', 'callx', 'usex', 'typex', 'end_do_v',
           'call_', 'use_', 'import_i', 'only_o']
PLAIN_VARS = ['i1', 'tmp', 'acc', 'j2', 'w']
STRINGS = ['call foo(x)', 'end subroutine', 'use m, only: a => b', 'type :: t', 'contains', "it's", 'a ! not a comment',
           'x = 1; call bar(y)', 'if (a) call b', 'end module m', 'interface gen', 'procedure :: p => q', 'amp & ersand',
           '(unbalanced', 'module procedure p', 'subroutine s(x)', 'say "hi"', 'end type', 'generic :: g => a, b',
           'function f(x) result(y)']
COMMENTS = ['call subroutine end do', "if (x) then; 'quoted' end if", 'use module, only: x => y', 'type :: t ! nested',
            'a = b & c', 'end subroutine foo', 'interface; function f(x)', 'DO 10 I=1,N', 'contains',
            'end module', 'call foo(x)', 'procedure :: p', 'end interface', 'end type', 'module procedure m',
            '& leading ampersand', 'trailing ampersand &']
QUOTE_COMMENTS = ["it's", 'say "hi', "don't & won't"]

DEFAULT_PROFILE = {
    'max_modules': 2, 'max_free': 2, 'max_routines': 2, 'max_stmts': 4, 'max_depth': 2,
    'types': True, 'ifaces': True, 'internal': True, 'functions': True, 'blocks': True,
    'kw_names': True, 'strings': True, 'labels': True, 'ext_modules': True, 'intrinsic_modules': True,
    # ---- triggers of confirmed findings: off in the search profile, counted with ctx.exclude, kept in replays
    'kw_lhs': True,            # statement starting with an identifier that starts with 'call' (call_count = 3)
    'use_nature': True,        # use, intrinsic :: m   /   use :: m
    'bare_end': True,          # END without SUBROUTINE/FUNCTION
    'deferred': True,          # procedure(iface), deferred :: name
    'final': True,             # final :: name
    'operator_iface': True,    # interface operator(.op.)
    'cond_string': True,       # one-line IF whose condition contains a string with parentheses and keywords
    'tbp_array_parent': True,  # call arr(i)%go(x)
    'proc_list': True,         # module procedure a, b  with '::'
    'typed_prefix': True,      # typed function headers  integer function f(x)
    'free_iface_modproc': True,  # free routine with 'module procedure' in a generic interface, followed by a module
    'pass_arg': True,          # procedure, pass(this) :: b => p
    'extends_spaced': True,    # type, extends( parent ) :: child   (blanks inside the parentheses)
    'mod_type_string': True,   # module-level character constant whose text looks like a TYPE statement
    'internal_before_module': True,  # module procedure with internal procedures in a module that is followed by another module
    'iface_fun_body': True,    # interface body of a FUNCTION whose result type is declared in its specification part
}
TRIGGER_FLAGS = ['kw_lhs', 'use_nature', 'bare_end', 'deferred', 'final', 'cond_string', 'free_iface_modproc',
                 'pass_arg', 'extends_spaced', 'mod_type_string', 'internal_before_module', 'iface_fun_body']


def looks_like_type_stmt(text):
    import re
    return re.search(r'type(?:\s*,\s*[\w()]+)*?(?:\s*::\s*|\s+)\w', text, re.I) is not None


def profile(**kw):
    p = dict(DEFAULT_PROFILE)
    p.update(kw)
    return p


class B:
    def __init__(self, draw, prof):
        self.draw = draw
        self.p = prof
        self.n = 0
        self.label = 100

    def i(self, lo, hi):
        return self.draw(st.integers(lo, hi))

    def chance(self, pct):
        return self.i(0, 99) < pct

    def pick(self, seq):
        return seq[self.i(0, len(seq) - 1)] if len(seq) > 1 else seq[0]

    def fresh(self):
        self.n += 1
        return self.n

    def newlabel(self):
        self.label += 10
        return self.label


def _new_routine(k, name, sig, this=None):
    return {'k': k, 'name': name, 'sig': sig, 'this': this, 'prefix': [], 'typed': None, 'result': None,
            'uses': [], 'ifaces': [], 'locals': [], 'arrs': [], 'chars': [], 'objs': [], 'body': [],
            'contains': [], 'end': 'full'}


EXT_MODULES = {
    # fixed external modules (selftest.py compiles matching stubs)
    'ext_mod': {'subs': ['xs0', 'call_xs1'], 'funs': ['xf0'], 'vars': ['xv0', 'use_xv1'], 'types': [['xt0', ['go', 'run']]]},
    'use_ext': {'subs': ['ys0'], 'funs': [], 'vars': ['yv0'], 'types': []},
}
INTRINSIC_MODULES = {'iso_fortran_env': ['int32', 'real64', 'output_unit'], 'iso_c_binding': ['c_int', 'c_double']}


def ext_stub_text():
    L = []
    for mn, d in EXT_MODULES.items():
        L.append(f'module {mn}')
        L.append('  implicit none')
        for k, v in enumerate(d['vars']):
            L.append(f'  integer :: {v} = {k}')
        for tn, binds in d['types']:
            L += [f'  type {tn}', '    integer :: n = 1', '  contains']
            L += [f'    procedure :: {b} => {tn}_{b}' for b in binds]
            L.append(f'  end type {tn}')
        L.append('contains')
        for s in d['subs']:
            L += [f'  subroutine {s}(x)', '    integer, intent(inout) :: x', '    x = x + 1', f'  end subroutine {s}']
        for s in d['funs']:
            L += [f'  integer function {s}(xin)', '    integer, intent(in) :: xin', f'    {s} = xin + 1', f'  end function {s}']
        for tn, binds in d['types']:
            for b in binds:
                L += [f'  subroutine {tn}_{b}(this, x)', f'    class({tn}), intent(inout) :: this',
                      '    integer, intent(inout) :: x', '    x = x + this%n', f'  end subroutine {tn}_{b}']
        L.append(f'end module {mn}')
    return '\n'.join(L) + '\n'


class Scope:
    """what a scoping unit (module or routine) can see, and where to put new USE statements"""

    def __init__(self, owner, host=None):
        self.owner = owner              # dict with 'uses'
        self.host = host
        self.local = {}                 # (module, entity) -> local name (through this scope's USEs)

    def lookup(self, key):
        s = self
        while s is not None:
            if key in s.local:
                return s.local[key]
            s = s.host
        return None


def _use_for(scope, module, only, nature=None):
    for u in scope.owner['uses']:
        if u['module'] == module and (u['only'] is None) == (not only) and u.get('nature') == nature:
            return u
    u = {'module': module, 'only': [] if only else None, 'renames': [], 'nature': nature}
    scope.owner['uses'].append(u)
    return u


def access(b, scope, module, entity, allow_rename=True, at=None):
    """make ``entity`` of ``module`` visible in ``scope`` (or one of its hosts); returns the local name"""
    have = scope.lookup((module, entity))
    if have:
        return have
    target = scope
    if at == 'host' and scope.host is not None:
        target = scope.host
    elif at is None and scope.host is not None and b.chance(35):
        target = scope.host
        while target.host is not None and b.chance(50):
            target = target.host
    modes = ['only', 'only', 'unq']
    if allow_rename:
        modes += ['rename', 'unq_rename']
    mode = b.pick(modes)
    unq_renamed = any(u['module'] == module and u['only'] is None and any(r[1] == entity for r in u['renames'])
                      for u in target.owner['uses'])
    if mode == 'unq' and unq_renamed:
        mode = 'only'
    nature = None
    if module in INTRINSIC_MODULES and b.p.get('use_nature') and b.chance(50):
        nature = b.pick(['intrinsic', 'dcolon'])
    elif b.p.get('use_nature') and b.chance(6):
        nature = 'dcolon'
    if mode == 'only':
        _use_for(target, module, True, nature)['only'].append([entity, None])
        local = entity
    elif mode == 'rename':
        local = f'{entity}_as{b.fresh()}'
        _use_for(target, module, True, nature)['only'].append([local, entity])
    elif mode == 'unq':
        _use_for(target, module, False, nature)
        local = entity
    else:
        local = f'{entity}_as{b.fresh()}'
        _use_for(target, module, False, nature)['renames'].append([local, entity])
    target.local[(module, entity)] = local
    return local


# ---------------------------------------------------------------------------------------------
@st.composite
def files(draw, prof=None):
    p = prof or DEFAULT_PROFILE
    b = B(draw, p)
    n_mod = b.i(0, p['max_modules'])
    n_free = b.i(0, p['max_free'])
    if n_mod + n_free < 2 and b.chance(85):
        n_free += 2 - (n_mod + n_free)
    if n_mod + n_free == 0:
        n_free = 1
    mod_names = list(draw(st.permutations(MOD_NAMES)))[:n_mod]
    modules = []
    for mi in range(n_mod):
        L = LETTERS[mi]
        m = {'k': 'module', 'name': mod_names[mi], 'uses': [], 'access': b.pick([None, None, 'private', 'public']),
             'vars': [], 'strs': [], 'types': [], 'ifaces': [], 'routines': []}
        for j in range(b.i(0 if mi else 1, p['max_routines'])):
            m['routines'].append(_new_routine('sub', f'{b.pick(SUB_STEMS) if p["kw_names"] else "sub"}_{L}{j}', 'x'))
        if p['functions'] and b.chance(45):
            stem = b.pick(FUN_STEMS) if p['kw_names'] else 'fn'
            m['routines'].append(_new_routine('fun', f'{stem}_{L}f', 'fun'))
        for j in range(b.i(0, 2)):
            nm = (b.pick(KW_VARS) if p['kw_names'] and b.chance(60) else 'nv') + f'_{L}{j}'
            m['vars'].append([nm, b.i(0, 9)])
        if p['strings'] and b.chance(30):
            pool = STRINGS if p.get('mod_type_string') else [t_ for t_ in STRINGS if not looks_like_type_stmt(t_)]
            m['strs'].append([f'str_{L}', b.pick(pool)])
        if p['types']:
            for j in range(b.i(1, 2) if b.chance(65) else 0):
                stem = b.pick(TYPE_STEMS) if p['kw_names'] else 't'
                m['types'].append({'name': f'{stem}_{L}y{j}', 'attrs': [], 'comps': [['n', None]], 'procs': []})
        modules.append(m)
    free = []
    for j in range(n_free):
        if p['functions'] and b.chance(20):
            stem = b.pick(FUN_STEMS) if p['kw_names'] else 'fn'
            free.append(_new_routine('fun', f'{stem}_fr{j}', 'fun'))
        else:
            stem = b.pick(SUB_STEMS) if p['kw_names'] else 'sub'
            free.append(_new_routine('sub', f'{stem}_fr{j}', 'x'))

    # order of units in the file: modules keep their relative order (providers first), free routines anywhere
    slots = list(draw(st.permutations(list(range(n_mod + n_free)))))
    mod_slots = sorted(slots[:n_mod])
    free_slots = slots[n_mod:]
    units = [None] * (n_mod + n_free)
    for mi, s in enumerate(mod_slots):
        units[s] = modules[mi]
    for fi, s in enumerate(free_slots):
        units[s] = free[fi]

    # ---- types: attrs, components, bindings (+ their target procedures) ------------------------------
    for mi, m in enumerate(modules):
        L = LETTERS[mi]
        mscope = Scope(m)
        m['_scope'] = mscope
        for ti, t in enumerate(m['types']):
            if b.chance(25):
                t['attrs'].append('public')
            if ti > 0 and b.chance(35):
                t['attrs'].append(f'extends({m["types"][0]["name"]})')
                t['extends'] = m['types'][0]['name']
                t['comps'] = []
                if p.get('extends_spaced') and b.chance(30):
                    t['extends_spaced'] = True
            if p['kw_names'] and b.chance(40):
                t['comps'].append([b.pick(KW_VARS) + f'_{ti}', None])
            # member of an earlier type (same module or an earlier module)
            cands = [(m['name'], tt['name']) for tt in m['types'][:ti] if tt['name'] != t.get('extends')]
            cands += [(mm['name'], tt['name']) for mm in modules[:mi] for tt in mm['types'] if not tt.get('abstract')]
            if cands and b.chance(45):
                tm, tn = b.pick(cands)
                local = tn if tm == m['name'] else access(b, mscope, tm, tn, allow_rename=False)
                t['comps'].append([f'c{ti}', local, f'{tm}#{tn}'])
            nb = b.pick([0, 1, 2, 2])
            names = list(draw(st.permutations(BIND_NAMES)))
            for j in range(nb):
                bname = f'{names[j]}{ti}'
                pname = f'{b.pick(SUB_STEMS) if p["kw_names"] else "tbp"}_{L}t{ti}{j}'
                real = b.chance(50) if j == 1 else b.chance(10)
                r = _new_routine('sub', pname, 'thisr' if real else 'this', this=t['name'])
                m['routines'].append(r)
                attrs = []
                if b.chance(25):
                    attrs.append(b.pick(['pass', 'public', 'non_overridable'] + (['pass(this)'] if p.get('pass_arg') else [])))
                if b.chance(50):
                    t['procs'].append(['proc', pname, None, attrs, None])
                    r['_binding'] = pname
                else:
                    t['procs'].append(['proc', bname, pname, attrs, None])
                    r['_binding'] = bname
            intb = [pr for pr in t['procs'] if pr[0] == 'proc' and _routine(m, pr[2] or pr[1])['sig'] == 'this']
            realb = [pr for pr in t['procs'] if pr[0] == 'proc' and _routine(m, pr[2] or pr[1])['sig'] == 'thisr']
            if intb and b.chance(75 if realb else 30):
                targets = [intb[0][1]] + ([realb[0][1]] if realb else [])
                t['procs'].append(['generic', f'{b.pick(BIND_NAMES)}_g{ti}', targets])
            if p.get('final') and b.chance(8):
                pname = f'fin_{L}t{ti}'
                r = _new_routine('sub', pname, 'final', this=t['name'])
                m['routines'].append(r)
                t['procs'].append(['final', pname])
            if p.get('deferred') and not t.get('extends') and not t['procs'] and b.chance(25) \
                    and not any(c[1] for c in t['comps']) and ti == len(m['types']) - 1 and (ti > 0 or len(m['types']) == 1):
                # abstract type with a deferred binding (nobody instantiates it)
                t['attrs'].append('abstract')
                t['abstract'] = True
                iname = f'absif_{L}{ti}'
                m['ifaces'].append(['abstract', [['sub', iname, 'this', t['name']]]])
                t['procs'].append(['proc', f'{b.pick(BIND_NAMES)}{ti}', None, ['deferred'], iname])
        # interfaces
        if p['ifaces']:
            subs_x = [r['name'] for r in m['routines'] if r['sig'] == 'x']
            if subs_x and b.chance(40):
                procs = [b.pick(subs_x)]
                if b.chance(60):
                    rn = f'{b.pick(SUB_STEMS) if p["kw_names"] else "rs"}_{L}r'
                    m['routines'].append(_new_routine('sub', rn, 'r'))
                    procs.append(rn)
                stem = b.pick(IFACE_STEMS) if p['kw_names'] else 'gen'
                form = b.pick(['module procedure', 'module procedure', 'procedure',
                               'module procedure ::' if p.get('proc_list') else 'module procedure'])
                m['ifaces'].append(['generic', f'{stem}_i{L}', procs, form])
            if b.chance(15):
                m['ifaces'].append(['abstract', [['sub', f'abs_{L}', 'x']] +
                                    ([['fun', f'absf_{L}', 'fun']] if p.get('iface_fun_body') and b.chance(40) else [])])
            if p.get('operator_iface') and m['types'] and not m['types'][0].get('abstract') and b.chance(10):
                fn = f'opf_{L}'
                r = _new_routine('fun', fn, 'op', this=m['types'][0]['name'])
                m['routines'].append(r)
                m['ifaces'].append(['operator', b.pick(['operator(.plus.)', 'operator(+)', 'operator (.call.)']), [fn]])
        # shuffle module routines
        m['routines'] = list(draw(st.permutations(m['routines'])))

    # ---- routine contents -------------------------------------------------------------------------------
    unit_index = {id(u): k for k, u in enumerate(units)}

    def fill(r, scope_host, mod, mi_limit, depth=0, hosts=()):
        """fill spec and body of routine r; mod = enclosing module or None; mi_limit: modules[:mi_limit] importable"""
        scope = Scope(r, scope_host)
        pure = False
        if r['k'] == 'fun' and r['sig'] == 'fun':
            c = b.i(0, 9)
            if c < 2:
                r['prefix'] = [b.pick(['pure', 'elemental', 'pure elemental', 'elemental pure'])]
                pure = True
            elif c < 3:
                r['prefix'] = ['recursive']
            if p.get('typed_prefix') and b.chance(50):
                r['typed'] = b.pick(['integer', 'integer(kind=4)', 'integer (4)'])
                if r['prefix'] and b.chance(50):
                    r['_typed_first'] = True
            if b.chance(40) or (p.get('kw_lhs') is False and r['name'].startswith('call')):
                r['result'] = b.pick(['res', 'result_v', 'function_r'])
        elif r['k'] == 'sub' and r['sig'] in ('x', 'r'):
            c = b.i(0, 9)
            if c < 2:
                r['prefix'] = ['recursive']
            elif c < 3:
                r['prefix'] = [b.pick(['impure elemental', 'pure']) if mod is not None else 'pure']
                pure = r['prefix'] == ['pure']
        if r['sig'] == 'final':
            pure = True
        if r['sig'] == 'op':
            pure = True
        r['end'] = b.pick(['full', 'full', 'full', 'noname', 'bare' if p.get('bare_end') else 'noname'])
        # locals
        pool = (KW_VARS if p['kw_names'] else []) + PLAIN_VARS
        names = list(draw(st.permutations(pool)))
        r['locals'] = sorted(names[:b.i(1, 4)])
        if b.chance(30):
            r['arrs'] = [names[5] + '_arr']
        if p['strings'] and b.chance(25):
            r['chars'] = ['sname']
        if pure:
            r['body'] = _pure_body(b, r)
            return
        env = {'r': r, 'scope': scope, 'mod': mod, 'limit': mi_limit, 'nobj': 0, 'depth': depth, 'hosts': list(hosts)}
        # internal procedures first (so the host can call them)
        no_internal = (not p.get('internal_before_module', True) and mod is not None and mod is not modules[-1])
        if p['internal'] and depth == 0 and r['sig'] in ('x', 'r', 'this', 'fun') and b.chance(22) and not no_internal:
            for j in range(b.i(1, 2)):
                n = b.fresh()
                if p['functions'] and b.chance(30):
                    c = _new_routine('fun', f'{b.pick(FUN_STEMS) if p["kw_names"] else "fn"}_in{n}', 'fun')
                else:
                    c = _new_routine('sub', f'{b.pick(SUB_STEMS) if p["kw_names"] else "sub"}_in{n}', 'x')
                r['contains'].append(c)
        # shadowing: an internal FUNCTION named like a module function defined EARLIER in the same module, used in
        # an expression of the host (the internal function, not the module function, is what the host references)
        shadow = None
        if (p.get('shadow_internal', True) and p['internal'] and p['functions'] and depth == 0 and mod is not None
                and r['k'] == 'sub' and r['sig'] == 'x' and not no_internal):
            ridx = next(k for k, rr in enumerate(mod['routines']) if rr is r)
            earlier = [rr for rr in mod['routines'][:ridx] if rr['sig'] == 'fun']
            if earlier and b.chance(40):
                shadow = _new_routine('fun', b.pick(earlier)['name'], 'fun')
                shadow['_shadow'] = True
                r['contains'].append(shadow)
        r['body'] = _body(b, env, p['max_depth'], b.i(1, p['max_stmts']))
        if shadow is not None:
            r['body'].append(['assign', ['v', 'x'], ['f', shadow['name'], [['v', 'x']]], {}])
        if r.get('_shadow') and p['ext_modules']:
            # make the internal function differ from its module-level namesake in imports and call targets
            local = access(b, scope, 'use_ext', 'ys0', at='self')
            r['body'].append(['call', [local], [['v', 'x']], {}])
        for c in r['contains']:
            fill(c, scope, mod, mi_limit, depth + 1, tuple(hosts) + (r,))

    def callables(env):
        """[(kind, parts/name, module or None, argsig)] reachable from the routine in env"""
        r, mod = env['r'], env['mod']
        out = []
        self_ok = 'recursive' in ' '.join(r['prefix'])
        banned = [h for h in env['hosts'] + [r] if 'recursive' not in ' '.join(h['prefix'])]
        if mod is not None:
            for rr in mod['routines']:
                if any(rr is h for h in banned):
                    continue
                if rr['sig'] in ('x', 'r'):
                    out.append(('same', rr['name'], None, rr['sig']))
            for it in mod['ifaces']:
                if it[0] == 'generic':
                    out.append(('same', it[1], None, 'g' + ''.join(_routine(mod, pn)['sig'] for pn in it[2])))
        for mm in modules[:env['limit']]:
            for rr in mm['routines']:
                if rr['sig'] in ('x', 'r'):
                    out.append(('mod', rr['name'], mm['name'], rr['sig']))
            for it in mm['ifaces']:
                if it[0] == 'generic':
                    out.append(('mod', it[1], mm['name'], 'g' + ''.join(_routine(mm, pn)['sig'] for pn in it[2])))
        for fr in free:
            if fr['k'] == 'sub' and not any(fr is h for h in banned):
                out.append(('free', fr['name'], None, 'x'))
        host = r
        for c in r['contains']:
            if c['k'] == 'sub':
                out.append(('internal', c['name'], None, 'x'))
        if env.get('siblings'):
            for c in env['siblings']:
                if c['k'] == 'sub' and c is not r:
                    out.append(('internal', c['name'], None, 'x'))
        if p['ext_modules']:
            for mn, d in EXT_MODULES.items():
                for s in d['subs']:
                    out.append(('ext', s, mn, 'x'))
        return out

    def _is_ancestor_free(fr, r):
        return False

    def functions(env):
        r, mod = env['r'], env['mod']
        out = []
        banned = [h for h in env['hosts'] + [r] if 'recursive' not in ' '.join(h['prefix'])]
        if mod is not None:
            out += [('same', rr['name'], None) for rr in mod['routines'] if rr['sig'] == 'fun'
                    and not any(rr is h for h in banned) and not (r.get('_shadow') and rr['name'] == r['name'])]
        for mm in modules[:env['limit']]:
            out += [('mod', rr['name'], mm['name']) for rr in mm['routines'] if rr['sig'] == 'fun']
        out += [('internal', c['name'], None) for c in r['contains'] if c['k'] == 'fun']
        if p['ext_modules']:
            out += [('ext', 'xf0', 'ext_mod')]
        return out

    def types(env):
        mod = env['mod']
        out = []
        if mod is not None:
            out += [(mod, t) for t in mod['types'] if not t.get('abstract')]
        for mm in modules[:env['limit']]:
            out += [(mm, t) for t in mm['types'] if not t.get('abstract')]
        return out

    envhooks = {'callables': callables, 'functions': functions, 'types': types, 'modules': modules, 'free': free}
    b.hooks = envhooks

    for k, u in enumerate(units):
        if u['k'] == 'module':
            mi = modules.index(u)
            for r in u['routines']:
                fill(r, u['_scope'], u, mi)
        else:
            limit = sum(1 for uu in units[:k] if uu['k'] == 'module')
            fill(u, None, None, limit)
    for m in modules:
        m.pop('_scope', None)
    model = {'units': units}
    _strip(model)
    return model


def _strip(o):
    if isinstance(o, dict):
        for k in [k for k in o if k.startswith('_')]:
            del o[k]
        for v in o.values():
            _strip(v)
    elif isinstance(o, list):
        for v in o:
            _strip(v)


def _routine(m, name):
    for r in m['routines']:
        if r['name'] == name:
            return r
    raise KeyError(name)


def _pure_body(b, r):
    if r['sig'] == 'final':
        return [['assign', ['v', 'this%n'], ['i', 0], {}]]
    if r['sig'] == 'op':
        return [['assign', ['v', 'opres%n'], ['b', '+', ['v', 'opa%n'], ['v', 'opb%n']], {}]]
    res = r['result'] or r['name']
    src = 'xin' if r['k'] == 'fun' else None
    body = []
    for nm in r['locals'][:2]:
        if b.p.get('kw_lhs') is False and nm.startswith('call'):
            continue
        body.append(['assign', ['v', nm], ['b', '+', ['v', src] if src else ['i', 1], ['i', b.i(0, 9)]], {}])
    if r['k'] == 'fun':
        body.append(['assign', ['v', res], ['b', '*', ['v', 'xin'], ['i', 2]], {}])
    elif r['sig'] == 'x':
        body.append(['assign', ['v', 'x'], ['b', '+', ['v', 'x'], ['v', r['locals'][0]]], {}])
    else:
        body.append(['assign', ['v', 'r'], ['b', '+', ['v', 'r'], ['i', 1]], {}])
    return body


# ---- bodies -------------------------------------------------------------------------------------------
def _ivar(b, env, write=False):
    r = env['r']
    cands = r['locals'] + ['x' if r['sig'] not in ('r', 'thisr') else 'xi']
    if write:
        cands = [c for c in cands if c not in env.get('active', ())]
    return b.pick(cands)


def _expr(b, env, depth=2):
    r = env['r']
    c = b.i(0, 9)
    if depth <= 0 or c < 3:
        return ['i', b.i(0, 20)]
    if c < 6:
        return ['v', _ivar(b, env)]
    if c < 7 and r['arrs']:
        return ['e', r['arrs'][0], ['i', b.i(1, 3)]]
    if c < 8:
        funs = b.hooks['functions'](env)
        if funs and b.p['functions']:
            kind, name, mod = b.pick(funs)
            local = name
            if kind in ('mod', 'ext'):
                local = access(b, env['scope'], mod, name)
            return ['f', local, [_expr(b, env, depth - 1)]]
        return ['v', _ivar(b, env)]
    e = ['b', b.pick(['+', '-', '*']), _expr(b, env, depth - 1), _expr(b, env, depth - 1)]
    return ['p', e] if b.chance(30) else e


def _cond(b, env):
    r = env['r']
    c = b.i(0, 9)
    if c < 1 and r['chars'] and b.p.get('cond_string'):
        return ['b', '==', ['v', r['chars'][0]], ['s', b.pick(['if (a) call b', '(x) call y(', 'call z(1)', ') call w']), "'"]]
    if c < 2 and r['chars']:
        return ['b', '/=', ['v', r['chars'][0]], ['s', b.pick(['call', 'end', 'a;b', 'x!y']), b.pick(["'", '"'])]]
    e = ['b', b.pick(['>', '<', '==', '/=', '>=', '<=']), _expr(b, env, 1), _expr(b, env, 1)]
    if c < 4:
        return ['n', ['p', e]]
    if c < 6:
        return ['b', b.pick(['.and.', '.or.']), e, ['b', '>', ['v', _ivar(b, env)], ['i', b.i(0, 5)]]]
    return e


def _call(b, env):
    """a CALL statement to something reachable, or None"""
    r = env['r']
    cands = b.hooks['callables'](env)
    tys = b.hooks['types'](env) if b.p['types'] else []
    c = b.i(0, 9)
    opts = {}
    if b.p['labels'] and b.chance(8):
        opts['label'] = b.newlabel()
    if tys and c < 3:
        mod, t = b.pick(tys)
        if env['mod'] is not None and mod is env['mod']:
            local = t['name']
        else:
            local = access(b, env['scope'], mod['name'], t['name'], allow_rename=False, at='self')
        # reuse or declare an object
        objs = [o for o in r['objs'] if o[1] == local]
        if objs and b.chance(60):
            o = objs[0]
        else:
            dim = 2 if (b.p.get('tbp_array_parent') and b.chance(15)) else None
            o = [f'o{len(r["objs"])}', local, dim]
            r['objs'].append(o)
        parts = [o[0] + (f'({b.i(1, 2)})' if o[2] else '')]
        cur_m, cur_t = mod, t
        for _ in range(2):
            members = [cmp for cmp in cur_t['comps'] if len(cmp) > 2]
            if members and (b.chance(45) or not _bindings(cur_m, cur_t)):
                cmp = members[0]
                parts.append(cmp[0])
                tm, tn = cmp[2].split('#')
                cur_m = next(mm for mm in b.hooks['modules'] if mm['name'] == tm)
                cur_t = next(tt for tt in cur_m['types'] if tt['name'] == tn)
            else:
                break
        binds = _bindings(cur_m, cur_t)
        if binds:
            bname, sig = b.pick(binds)
            parts.append(bname)
            arg = ['v', 'rr'] if sig == 'r' else ['v', 'x' if r['sig'] != 'r' and r['sig'] != 'thisr' else 'xi']
            return ['call', parts, [arg], opts]
    if b.p['ext_modules'] and c < 4 and b.chance(40):
        local = access(b, env['scope'], 'ext_mod', 'xt0', allow_rename=False, at='self')
        objs = [o for o in r['objs'] if o[1] == local]
        if objs:
            o = objs[0]
        else:
            o = [f'o{len(r["objs"])}', local, None]
            r['objs'].append(o)
        return ['call', [o[0], b.pick(['go', 'run'])], [_intarg(r)], opts]
    if not cands:
        return None
    kind, name, mod, sig = b.pick(cands)
    local = name
    if kind in ('mod', 'ext'):
        local = access(b, env['scope'], mod, name)
    elif kind == 'free' and b.p['ifaces'] and b.chance(30) and not any(name == h['name'] for h in env['hosts'] + [r]):
        if not any(it[0] == 'plain' and any(bd[1] == name for bd in it[1]) for it in _all_ifaces(env)):
            if r['ifaces'] and r['ifaces'][-1][0] == 'plain' and b.chance(50):
                r['ifaces'][-1][1].append(['sub', name, 'x'])
            else:
                r['ifaces'].append(['plain', [['sub', name, 'x']]])
    if sig.startswith('g'):
        sig = 'r' if ('r' in sig[1:] and b.chance(50)) else 'x'
    arg = ['v', 'rr'] if sig == 'r' else _intarg(r)
    return ['call', [local], [arg], opts]


def _all_ifaces(env):
    return env['r']['ifaces']


def _intarg(r):
    return ['v', 'x' if r['sig'] not in ('r', 'thisr') else 'xi']


def _bindings(mod, t):
    """[(binding name, 'x'|'r')] callable on an object of type t (own bindings; generic -> by first target)"""
    out = []
    for pr in t['procs']:
        if pr[0] == 'proc' and pr[4] is None:
            sig = _routine(mod, pr[2] or pr[1])['sig']
            out.append((pr[1], 'r' if sig == 'thisr' else 'x'))
        elif pr[0] == 'generic':
            out.append((pr[1], 'x'))
    return out


def _body(b, env, depth, n):
    r = env['r']
    out = []
    for _ in range(n):
        c = b.i(0, 99)
        if c < 34:
            s = _call(b, env)
            if s is not None:
                if b.chance(25):
                    s = ['if1', _cond(b, env), s]
                out.append(s)
                continue
            c = 40
        if c < 58:
            lhs = ['v', _ivar(b, env, True)]
            if r['arrs'] and b.chance(20):
                lhs = ['e', r['arrs'][0], ['i', b.i(1, 3)]]
            if b.p.get('kw_lhs') is False:
                # exclusion by construction: no statement starts with an identifier that starts with 'call'
                if lhs[1].startswith('call'):
                    lhs = ['v', 'x' if r['sig'] not in ('r', 'thisr') else 'xi']
            opts = {}
            if b.p['labels'] and b.chance(5):
                opts['label'] = b.newlabel()
            s = ['assign', lhs, _expr(b, env), opts]
            if b.chance(12):
                s = ['if1', _cond(b, env), s]
            out.append(s)
        elif c < 64 and b.p['strings']:
            items = [['s', b.pick(STRINGS), b.pick(["'", "'", '"'])]]
            if b.chance(50):
                items.append(['v', _ivar(b, env)])
            out.append(['print', items, {}])
        elif c < 68 and b.p['strings'] and r['chars']:
            out.append(['assign', ['v', r['chars'][0]], ['s', b.pick(STRINGS), b.pick(["'", '"'])], {}])
        elif c < 72:
            out.append(['comment', ' ' + b.pick(COMMENTS)])
        elif c < 74:
            out.append(['pragma', b.pick(['loki dummy', 'acc routine seq', 'omp parallel']) ])
        elif c < 76 and b.p['labels']:
            out.append(['continue', {'label': b.newlabel()}])
        elif depth > 0 and b.p['blocks']:
            k = b.i(0, 9)
            m = b.i(1, 3)
            if k < 3:
                brs = [[_cond(b, env), _body(b, env, depth - 1, m)]]
                for _ in range(b.i(0, 2) if b.chance(50) else 0):
                    brs.append([_cond(b, env), _body(b, env, depth - 1, b.i(1, 2))])
                els = _body(b, env, depth - 1, b.i(1, 2)) if b.chance(40) else None
                out.append(['if', brs, els])
            elif k < 6:
                loopvars = [v for v in r['locals'] if v not in env.get('active', ())]
                if not loopvars:
                    continue
                v = b.pick(loopvars)
                env.setdefault('active', []).append(v)
                form = b.pick(['plain', 'plain', 'label', 'named']) if b.p['labels'] else 'plain'
                out.append(['do', v, ['i', 1], _expr(b, env, 1), _body(b, env, depth - 1, m), form,
                            b.newlabel() if form == 'label' else b.fresh()])
                env['active'].remove(v)
            elif k < 7:
                out.append(['while', _cond(b, env), _body(b, env, depth - 1, m)])
            elif k < 9:
                cases = []
                vals = list(range(0, 9))
                for j in range(b.i(1, 3)):
                    cases.append([[vals[2 * j]] + ([vals[2 * j + 1]] if b.chance(30) else []),
                                  _body(b, env, depth - 1, b.i(1, 2))])
                dflt = _body(b, env, depth - 1, 1) if b.chance(50) else None
                out.append(['select', ['v', _ivar(b, env)], cases, dflt])
            else:
                nm = f'as{b.fresh()}'
                out.append(['assoc', nm, ['b', '+', ['v', _ivar(b, env)], ['i', 1]],
                            [['assign', ['v', 'x' if r['sig'] not in ('r', 'thisr') else 'xi'],
                              ['b', '+', ['v', nm], ['i', 1]], {}]] + _body(b, env, depth - 1, m - 1)])
        else:
            out.append(['assign', ['v', 'x' if r['sig'] not in ('r', 'thisr') else 'xi'], _expr(b, env), {}])
    return out


# ---------------------------------------------------------------------------------------------
# layouts
# ---------------------------------------------------------------------------------------------
LAYOUT_TRIGGERS = ['end_gap', 'endjoin_iface', 'leadblank', 'bind_kw_nocolon']


@st.composite
def layouts(draw, plain=False, triggers=()):
    """triggers: layout keys that provoke listed findings (off unless named here)"""
    if plain:
        return {'stream': [0]}
    i = lambda lo, hi: draw(st.integers(lo, hi))   # noqa: E731
    ch = lambda pct: draw(st.integers(0, 99)) < pct   # noqa: E731
    lay = {
        'stream': draw(st.lists(st.integers(0, 1000), min_size=4, max_size=24)),
        'kwcase': i(0, 2), 'idcase': [0, 0, 1, 2][i(0, 3)], 'indent': i(0, 4),
        'cont': [0, 0, 1, 2, 3][i(0, 4)], 'contlead': ch(40), 'contcomment': ch(25), 'conttrail': ch(25),
        'strsplit': ch(20), 'semi': ch(35), 'blank': ch(40), 'comments': ch(45), 'trailing': ch(35),
        'endjoin': ch(35), 'spaces': i(0, 2), 'maxlen': [50, 70, 100, 130][i(0, 3)], 'dcolon': ch(75),
        'relop': i(0, 2), 'leadcomment': ch(35), 'tailcomment': ch(25), 'between': ch(40),
        'endjoin_unit': ch(30), 'endjoin_type': ch(30),
        'end_gap': ch(60) if 'end_gap' in triggers else False,
        'endjoin_iface': ch(60) if 'endjoin_iface' in triggers else False,
        'leadblank': ch(60) if 'leadblank' in triggers else False,
        'bind_kw_nocolon': ch(60) if 'bind_kw_nocolon' in triggers else False,
    }
    lay['quotecomment'] = bool(lay['conttrail'])      # comments after '&' may contain quote characters
    return lay


# ---------------------------------------------------------------------------------------------
# ground truth
# ---------------------------------------------------------------------------------------------
def _calls_of(body, out):
    for s in body:
        k = s[0]
        if k == 'call':
            out.append('%'.join(part.split('(')[0] for part in s[1]))
        elif k == 'if1':
            _calls_of([s[2]], out)
        elif k == 'if':
            for _, bd in s[1]:
                _calls_of(bd, out)
            if s[2]:
                _calls_of(s[2], out)
        elif k in ('do',):
            _calls_of(s[4], out)
        elif k == 'while':
            _calls_of(s[2], out)
        elif k == 'select':
            for _, bd in s[2]:
                _calls_of(bd, out)
            if s[3]:
                _calls_of(s[3], out)
        elif k == 'assoc':
            _calls_of(s[3], out)
    return out


def _use_fact(u):
    syms = [[o[0], o[1] or ''] for o in (u['only'] or [])]
    ren = [[o[0], o[1]] for o in u['renames']]
    return [u['module'], syms, ren]


def _iface_fact(it):
    if it[0] == 'generic':
        return [it[1], False, [it[1]] + list(it[2])]
    if it[0] == 'operator':
        return [it[1].replace(' ', ''), False, [it[1].replace(' ', '')] + list(it[2])]
    return [None, it[0] == 'abstract', [bd[1] for bd in it[1]]]


def truth(model):
    """{'units': [[path, kind]], 'scopes': {path: {'imports', 'typedefs', 'ifaces', 'calls'}}}"""
    units, scopes = [], {}

    def routine(r, path):
        pth = path + [r['name']]
        key = '/'.join(pth)
        units.append([key, 'function' if r['k'] == 'fun' else 'subroutine'])
        scopes[key] = {'imports': [_use_fact(u) for u in r['uses']], 'typedefs': [],
                       'ifaces': [_iface_fact(it) for it in r['ifaces']], 'calls': _calls_of(r['body'], [])}
        for c in r['contains']:
            routine(c, pth)

    for u in model['units']:
        if u['k'] == 'module':
            key = u['name']
            units.append([key, 'module'])
            tds = []
            for t in u['types']:
                bs = []
                for pr in t['procs']:
                    if pr[0] == 'proc':
                        bs.append([pr[1], [pr[2]] if pr[2] else [], False])
                    elif pr[0] == 'generic':
                        bs.append([pr[1], list(pr[2]), True])
                    elif pr[0] == 'final':
                        bs.append([pr[1], [], 'final'])
                tds.append([t['name'], bs])
            scopes[key] = {'imports': [_use_fact(x) for x in u['uses']], 'typedefs': tds,
                           'ifaces': [_iface_fact(it) for it in u['ifaces']]}
            for r in u['routines']:
                routine(r, [u['name']])
        else:
            routine(u, [])
    return {'units': units, 'scopes': scopes}


def features(model):
    """coarse feature tags of a model (class histogram)"""
    tags = set()
    t = truth(model)
    if sum(1 for _, k in t['units'] if k == 'module'):
        tags.add('has-module')
    mods = {u['name'] for u in model['units'] if u['k'] == 'module'}
    if any(k != 'module' and pth.count('/') >= (2 if pth.split('/')[0] in mods else 1) for pth, k in t['units']):
        tags.add('internal-procedure')
    if sum(1 for u in model['units'] if u['k'] == 'module') >= 2:
        tags.add('two-modules')
    for sc in t['scopes'].values():
        if sc['imports']:
            tags.add('imports')
        if any(ren for _, _, ren in sc['imports']):
            tags.add('import-rename-list')
        if any(any(r for _, r in syms) for _, syms, _ in sc['imports']):
            tags.add('import-only-rename')
        if sc['typedefs']:
            tags.add('typedefs')
        if any(bs for _, bs in sc['typedefs']):
            tags.add('bindings')
        if any(g is True for _, bs in sc['typedefs'] for _, _, g in bs):
            tags.add('generic-binding')
        if sc['ifaces']:
            tags.add('interfaces')
        if any(a for _, a, _ in sc['ifaces']):
            tags.add('abstract-interface')
        if sc.get('calls'):
            tags.add('calls')
        if any('%' in c for c in sc.get('calls', ())):
            tags.add('tbp-call')
    return sorted(tags)
