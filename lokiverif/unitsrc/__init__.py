"""
Generator of multi-unit free-form Fortran *files* with known ground truth, shared by C19 and C20.

  gen.py     hypothesis strategies: ``files(profile)`` -> JSON file model, ``layouts()``, ground truth
             (``truth(model)``: units / imports / typedefs+bindings / interfaces / call targets)
  render.py  model + layout -> text, statement line map (which statement sits on which physical lines,
             with a kind tag), program-unit spans
  facts.py   the same facts extracted from a loki ``Sourcefile`` (either frontend)
  selftest.py  ``python -m lokiverif.unitsrc.selftest N``: every generated file must compile with gfortran
"""
