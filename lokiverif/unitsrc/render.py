"""
Render a file model (gen.py) to free-form Fortran text under a generated *layout*.

render(model, layout) -> Rendered with
    .text        the file text
    .stmts       line map: one record per logical statement / comment line, in file order:
                 {'tag', 'span': [first, last], 'unit': unit key, 'shared': bool (shares lines through ';'),
                  'pos': index within a ';'-joined line, 'cont': bool (continued), 'label': int|None,
                  'fact': C19 fact class the statement carries or None, 'lead': first identifier/keyword text}
    .units       unit key -> [first line, last line]
    .touched     set of layout perturbations that touched a statement carrying a C19 fact

Layout (JSON dict, every key optional; no RNG - all variation comes from the layout value):
    kwcase/idcase 0 lower, 1 upper, 2 mixed;  indent 0..4;  cont 0..3 (continuation frequency);  contlead (leading &);
    contcomment (comment/blank lines between continuation lines);  conttrail (comment after a trailing &);
    quotecomment (those comments may contain quote characters);  strsplit (break lines inside character literals);
    semi (';'-joined statements);  blank, comments, trailing (decoration);  endjoin (ENDDO/ENDIF/ELSEIF/SELECTCASE);
    endjoin_unit (ENDSUBROUTINE ...), endjoin_iface (ENDINTERFACE), endjoin_type (ENDTYPE);  spaces 0..2;
    maxlen;  dcolon (optional '::');  relop 0 symbols, 1 dotted, 2 mixed;  leadcomment/tailcomment (comment lines
    before the first / after the last unit);  between (comment lines between units);  stream [ints] choice stream;
    leadblank (the file may start with a blank line);  end_gap (END SUBROUTINE <name> of internal procedures may have
    more than one blank / a line break before the name).
"""
from .gen import COMMENTS, QUOTE_COMMENTS

KW, ID, NUM, STR, OP, PUNCT = 'kw', 'id', 'num', 'str', 'op', 'punct'
REL_DOT = {'>': '.gt.', '<': '.lt.', '==': '.eq.', '/=': '.ne.', '>=': '.ge.', '<=': '.le.'}
PREC = {'.or.': 1, '.and.': 2, '==': 4, '/=': 4, '<': 4, '>': 4, '<=': 4, '>=': 4, '+': 6, '-': 6, '*': 7}


class Chooser:
    def __init__(self, stream):
        self.s = list(stream) or [0]
        self.i = 0

    def pick(self, n):
        if n <= 1:
            return 0
        v = self.s[self.i % len(self.s)] % n
        self.i += 1
        return v

    def chance(self, num, den):
        return self.pick(den) < num


class T:
    __slots__ = ('t', 'k', 'pre', 'glue', 'fixed')

    def __init__(self, t, k, pre='', glue=False):
        self.t, self.k, self.pre, self.glue = t, k, pre, glue   # glue: never break the line before this token
        self.fixed = False                                       # fixed: 'pre' is emitted exactly as given


def kw(t, pre=' '):
    return T(t, KW, pre)


def idt(t, pre=' '):
    return T(t, ID, pre)


def pu(t, pre='', glue=False):
    return T(t, PUNCT, pre, glue)


def quote(s, q="'"):
    return q + s.replace(q, q + q) + q


class Rendered:
    def __init__(self):
        self.text = ''
        self.stmts = []
        self.units = {}
        self.touched = set()
        self.nlines = 0
        self.blocks = []      # typedef / interface blocks: {'kind', 'name', 'unit', 'span'}
        self.how = set()      # every layout perturbation used anywhere in the file


class Renderer:
    def __init__(self, layout=None):
        self.L = dict(layout or {})
        self.ch = Chooser(self.L.get('stream') or [0])
        self.lines = []
        self.out = Rendered()
        self.pending = []      # logical statements waiting to be flushed (for ';' joins)
        self.in_module = False

    # ------------------------------------------------------------------ text of tokens
    def _case(self, text, mode):
        if mode == 1:
            return text.upper()
        if mode == 2:
            c = self.ch.pick(3)
            return text.upper() if c == 0 else (text.capitalize() if c == 1 else text.lower())
        return text

    def tok_text(self, tk):
        if tk.k == KW:
            return self._case(tk.t, self.L.get('kwcase', 0))
        if tk.k == ID:
            if '%' in tk.t or '(' in tk.t:
                return tk.t
            return self._case(tk.t, self.L.get('idcase', 0))
        return tk.t

    def sp(self):
        """separator variation between tokens where a blank is required or customary"""
        s = self.L.get('spaces', 1)
        if s == 2 and self.ch.pick(3) == 0:
            return '  '
        return ' '

    # ------------------------------------------------------------------ expressions
    def expr(self, e):
        k = e[0]
        if k == 'i':
            return [T(str(e[1]), NUM)], 9
        if k == 'v':
            return self.name_toks(e[1]), 9
        if k == 'e':
            return self.name_toks(e[1]) + [pu('(')] + self.expr(e[2])[0] + [pu(')')], 9
        if k == 's':
            return [T(quote(e[1], e[2]), STR)], 9
        if k == 'p':
            return [pu('(')] + self.expr(e[1])[0] + [pu(')')], 9
        if k == 'n':
            it, ip = self.expr(e[1])
            if ip <= 4:
                it = [pu('(')] + it + [pu(')')]
            it[0].pre = ' '
            return [kw('.not.', '')] + it, 3
        if k == 'f':
            toks = self.name_toks(e[1]) + [pu('(')]
            for i, a in enumerate(e[2]):
                if i:
                    toks.append(pu(','))
                at = self.expr(a)[0]
                at[0].pre = ' ' if i else ''
                toks += at
            return toks + [pu(')')], 9
        if k == 'b':
            op = e[1]
            P = PREC[op]
            lt, lp = self.expr(e[2])
            rt, rp = self.expr(e[3])
            if lp < P or (P == 4 and lp == 4):
                lt = [pu('(')] + lt + [pu(')')]
            if rp <= P:
                rt = [pu('(')] + rt + [pu(')')]
            text = op
            if op in REL_DOT:
                mode = self.L.get('relop', 0)
                if mode == 2:
                    mode = self.ch.pick(2)
                if mode == 1:
                    text = REL_DOT[op]
            dotted = text.startswith('.')
            s = self.L.get('spaces', 1)
            pre = ' ' if (dotted or s >= 1) else ''
            rt[0].pre = pre
            return lt + [T(text, KW if dotted else OP, pre)] + rt, P
        raise ValueError(e)

    def name_toks(self, name):
        """a%b(1)%c -> tokens (identifier parts get identifier case; % and subscripts are punctuation)"""
        toks = []
        for i, part in enumerate(name.split('%')):
            if i:
                toks.append(T('%', PUNCT, ' ' if self.L.get('spaces') == 2 and self.ch.pick(4) == 0 else '', glue=True))
            base, _, rest = part.partition('(')
            toks.append(T(base, ID, '', glue=bool(i)))
            if rest:
                toks.append(T('(' + rest, PUNCT, '', glue=True))
        if toks and len(toks) > 1 and toks[1].t == '%' and toks[1].pre:
            toks[2].pre = ' '
        return toks

    # ------------------------------------------------------------------ statement queue
    def stmt(self, toks, tag, level, unit, fact=None, label=None, join=False, key=None):
        self.pending.append({'toks': toks, 'tag': tag, 'level': level, 'unit': unit, 'fact': fact, 'label': label,
                             'join': join, 'key': key})

    def flush(self):
        pend, self.pending = self.pending, []
        i = 0
        while i < len(pend):
            group = [pend[i]]
            if self.L.get('semi'):
                while (i + len(group) < len(pend) and group[-1]['join'] and pend[i + len(group)]['join']
                       and pend[i + len(group)]['label'] is None and len(group) < 3
                       and pend[i + len(group)]['level'] == group[0]['level'] and self.ch.pick(3) == 0):
                    group.append(pend[i + len(group)])
            self.emit_group(group)
            i += len(group)

    def decor(self, level):
        if self.L.get('blank') and self.ch.pick(6) == 0:
            self.rawline('', 'blank')
        if self.L.get('comments') and self.ch.pick(5) == 0:
            ind = ' ' * (self.L.get('indent', 2) * level)
            self.rawline(ind + '! ' + COMMENTS[self.ch.pick(len(COMMENTS))], 'comment')

    def rawline(self, text, tag, unit=None):
        if not text.strip() and not self.lines and not self.L.get('leadblank'):
            return      # a file that starts with a blank line is the trigger of a listed finding (C20)
        self.lines.append(text)
        n = len(self.lines)
        self.out.stmts.append({'tag': tag, 'span': [n, n], 'unit': unit, 'shared': False, 'pos': 0, 'cont': False,
                               'label': None, 'fact': None, 'lead': '', 'key': None})

    def emit_group(self, group):
        level = group[0]['level']
        if not group[0]['tag'].startswith(('end-module', 'end-sub', 'end-fun')):
            self.decor(level)
        toks = []
        for gi, g in enumerate(group):
            if gi:
                sep = pu(';', ' ' if self.L.get('spaces') == 2 else '')
                toks.append(sep)
                g['toks'][0].pre = ' ' if self.L.get('spaces', 1) else ''
                g['toks'][0].glue = True
            else:
                g['toks'][0].pre = ''
            toks += g['toks']
        trailing = None
        if self.L.get('trailing') and self.ch.pick(5) == 0:
            trailing = COMMENTS[self.ch.pick(len(COMMENTS))]
        first, last, how = self.emit(toks, level, group[0]['label'], trailing)
        for gi, g in enumerate(group):
            lead = g.get('lead') or next((tk.t for tk in g['toks'] if tk.k in (ID, KW)), '')
            self.out.stmts.append({'tag': g['tag'], 'span': [first, last], 'unit': g['unit'], 'shared': len(group) > 1,
                                   'pos': gi, 'cont': last > first, 'label': g['label'], 'fact': g['fact'],
                                   'lead': lead, 'key': g['key']})
            if len(group) > 1:
                self.out.how.add('semicolon')
            self.out.how |= how
            if g['fact']:
                if len(group) > 1:
                    how.add('semicolon')
                if g['label'] is not None:
                    how.add('label')
                if trailing:
                    how.add('trailing-comment')
                self.out.touched |= {f'{h}' for h in how}

    def emit(self, toks, level, label=None, trailing=None):
        """one logical line -> physical lines; returns (first, last, set of perturbations used)"""
        L = self.L
        how = set()
        ind = ' ' * (L.get('indent', 2) * level)
        ind0 = ind
        if label is not None:
            lab = str(label)
            ind0 = lab + ' ' * max(1, len(ind) - len(lab))
        maxlen = L.get('maxlen', 100)
        cont = L.get('cont', 0)
        lead = L.get('contlead', False)
        cur = ind0
        first_line = len(self.lines) + 1
        ntok = len(toks)
        for i, tk in enumerate(toks):
            text = self.tok_text(tk)
            if tk.k in (KW, ID) and text != tk.t:
                how.add('case')
            pre = tk.pre
            if pre == ' ' and i and not tk.fixed:
                pre = self.sp()
            piece = ('' if i == 0 else pre) + text
            brk = False
            if i > 0 and not tk.glue:
                if len(cur) + len(piece) + 2 > maxlen:
                    brk = True
                elif cont and i < ntok and self.ch.pick(24 // (cont * cont + 1) + 2) == 0:
                    brk = True
            if brk:
                self._break(cur, ind, how)
                cur = ind + '   ' + ('& ' if lead else '')
                if lead:
                    how.add('leading-ampersand')
                piece = text
            elif (tk.k == STR and L.get('strsplit') and len(tk.t) >= 8 and self.ch.pick(3) == 0):
                # break the line inside the character literal: 'abc&  /  &def'
                body = tk.t
                cand = [p for p in range(2, len(body) - 2) if body[p] not in '\'"' and body[p - 1] not in '\'"'
                        and body[p] != ' ' and body[p - 1] != ' ' and body[p - 1] != '&']
                if cand:
                    p = cand[self.ch.pick(len(cand))]
                    cur += ('' if i == 0 else pre) + body[:p]
                    self.lines.append(cur + '&')
                    how.add('continuation')
                    how.add('split-string')
                    cur = ind + '   &'
                    piece = body[p:]
            cur += piece
        if trailing:
            cur += ' ! ' + trailing
        self.lines.append(cur)
        return first_line, len(self.lines), how

    def _break(self, cur, ind, how):
        L = self.L
        how.add('continuation')
        tail = ' &'
        if L.get('conttrail') and self.ch.pick(3) == 0:
            pool = COMMENTS + (QUOTE_COMMENTS if L.get('quotecomment') else [])
            tail = ' & ! ' + pool[self.ch.pick(len(pool))]
            how.add('comment-after-ampersand')
        self.lines.append(cur + tail)
        if L.get('contcomment') and self.ch.pick(3) == 0:
            if self.ch.pick(2) == 0:
                self.lines.append('')
            else:
                pool = COMMENTS + (QUOTE_COMMENTS if L.get('quotecomment') else [])
                self.lines.append(ind + '! ' + pool[self.ch.pick(len(pool))])
            how.add('comment-between-continuation-lines')

    # ------------------------------------------------------------------ pieces
    def end_toks(self, what, name=None, joined_key='endjoin'):
        if self.L.get(joined_key):
            toks = [kw('end' + what, '')]
        else:
            toks = [kw('end', ''), kw(what)]
        if name:
            toks.append(idt(name))
        return toks

    def use_toks(self, u):
        toks = [kw('use', '')]
        if u.get('nature') == 'intrinsic':
            toks += [pu(','), kw('intrinsic'), pu('::', ' ')]
        elif u.get('nature') == 'dcolon':
            toks += [pu('::', ' ')]
        toks.append(idt(u['module']))
        s = self.L.get('spaces', 1)
        if u['only'] is not None:
            toks += [pu(','), kw('only', ' ' if s else ''), pu(':', ' ' if s == 2 else '')]
            items = u['only']
        else:
            items = u['renames']
            if items:
                toks.append(pu(','))
        for i, (loc, rem) in enumerate(items):
            if i:
                toks.append(pu(','))
            toks.append(idt(loc, ' ' if s else ''))
            if rem:
                toks += [T('=>', OP, ' ' if s else ''), idt(rem, ' ' if s else '')]
        return toks

    def dc(self, force=False):
        return [pu('::', ' ')] if (force or self.L.get('dcolon', True)) else []

    def decl(self, typ_toks, names, attrs=(), init=None):
        toks = list(typ_toks)
        for a in attrs:
            toks += [pu(',')] + a
        # (fparser rejects 'type (t) x' without '::' when the statement is continued inside the parentheses)
        toks += self.dc(force=bool(attrs) or init is not None or typ_toks[0].t in ('type', 'class'))
        for i, n in enumerate(names):
            if i:
                toks.append(pu(','))
            toks += [idt(n.split('(')[0])] + ([pu('(' + n.split('(', 1)[1])] if '(' in n else [])
        if init is not None:
            it = self.expr(init)[0]
            it[0].pre = ' '
            toks += [T('=', OP, ' ')] + it
        return toks

    def intent(self, what):
        return [kw('intent'), pu('('), kw(what, ''), pu(')')]

    def typ(self, keyword, name):
        return [kw(keyword, ''), pu('('), idt(name, ''), pu(')')]

    # ------------------------------------------------------------------ statements
    def body(self, stmts, level, unit):
        for s in stmts:
            k = s[0]
            if k == 'comment':
                self.flush()
                ind = ' ' * (self.L.get('indent', 2) * level)
                self.rawline(ind + '!' + s[1], 'comment', unit)
            elif k == 'pragma':
                self.flush()
                ind = ' ' * (self.L.get('indent', 2) * level)
                self.rawline(ind + '!$' + s[1], 'pragma', unit)
            elif k == 'call':
                self.stmt(self.call_toks(s), 'call', level, unit, fact='calls', label=s[3].get('label'), join=True,
                          key=_callkey(s))
            elif k == 'assign':
                self.stmt(self.assign_toks(s), 'assign', level, unit, label=s[3].get('label'), join=True)
            elif k == 'print':
                toks = [kw('print', ''), pu('*', ' ')]
                for it in s[1]:
                    at = self.expr(it)[0]
                    at[0].pre = ' '
                    toks += [pu(',')] + at
                self.stmt(toks, 'print', level, unit, join=True)
            elif k == 'continue':
                self.stmt([kw('continue', '')], 'continue', level, unit, label=s[1].get('label'))
            elif k == 'if1':
                ct = self.expr(s[1])[0]
                ct[0].pre = ''
                inner = self.call_toks(s[2]) if s[2][0] == 'call' else self.assign_toks(s[2])
                inner[0].pre = ' '
                sp = ' ' if self.L.get('spaces', 1) else ''
                self.stmt([kw('if', ''), pu('(', sp)] + ct + [pu(')')] + inner, 'if1-' + s[2][0], level, unit,
                          fact='calls' if s[2][0] == 'call' else None, label=s[2][3].get('label'), join=True,
                          key=_callkey(s[2]) if s[2][0] == 'call' else None)
                self.pending[-1]['lead'] = next((tk.t for tk in inner if tk.k in (ID, KW)), '')
            elif k == 'if':
                for j, (cond, bd) in enumerate(s[1]):
                    ct = self.expr(cond)[0]
                    ct[0].pre = ''
                    if j == 0:
                        head = [kw('if', '')]
                    elif self.L.get('endjoin'):
                        head = [kw('elseif', '')]
                    else:
                        head = [kw('else', ''), kw('if')]
                    self.stmt(head + [pu('(', ' ')] + ct + [pu(')'), kw('then')], 'if-then' if j == 0 else 'else-if',
                              level, unit, join=True)
                    self.body(bd, level + 1, unit)
                if s[2] is not None:
                    self.stmt([kw('else', '')], 'else', level, unit, join=True)
                    self.body(s[2], level + 1, unit)
                self.stmt(self.end_toks('if'), 'end-if', level, unit, join=True)
            elif k == 'do':
                _, var, lo, hi, bd, form, n = s
                hdr = []
                name = None
                if form == 'named':
                    name = f'loop_{n}'
                    hdr += [idt(name, ''), pu(':', glue=True), T('do', KW, ' ', glue=True)]
                else:
                    hdr += [kw('do', '')]
                if form == 'label':
                    hdr.append(T(str(n), NUM, ' '))
                lt = self.expr(lo)[0]
                lt[0].pre = ' '
                ht = self.expr(hi)[0]
                ht[0].pre = ' '
                hdr += [idt(var), T('=', OP, ' ')] + lt + [pu(',')] + ht
                self.stmt(hdr, 'do', level, unit, join=(form == 'plain'))
                self.body(bd, level + 1, unit)
                if form == 'label':
                    self.stmt([kw('continue', '')], 'do-label-end', level, unit, label=n)
                else:
                    self.stmt(self.end_toks('do', name), 'end-do', level, unit, join=(form == 'plain'))
            elif k == 'while':
                ct = self.expr(s[1])[0]
                ct[0].pre = ''
                self.stmt([kw('do', ''), kw('while'), pu('(', ' ')] + ct + [pu(')')], 'while', level, unit)
                self.body(s[2], level + 1, unit)
                self.stmt(self.end_toks('do'), 'end-do', level, unit)
            elif k == 'select':
                et = self.expr(s[1])[0]
                et[0].pre = ''
                head = [kw('selectcase', '')] if self.L.get('endjoin') else [kw('select', ''), kw('case')]
                self.stmt(head + [pu('(', ' ')] + et + [pu(')')], 'select', level, unit)
                for vals, bd in s[2]:
                    toks = [kw('case', ''), pu('(', ' ')]
                    for m, v in enumerate(vals):
                        if m:
                            toks.append(pu(','))
                        toks.append(T(str(v), NUM, ' ' if m else ''))
                    self.stmt(toks + [pu(')')], 'case', level + 1, unit)
                    self.body(bd, level + 2, unit)
                if s[3] is not None:
                    self.stmt([kw('case', ''), kw('default')], 'case', level + 1, unit)
                    self.body(s[3], level + 2, unit)
                self.stmt(self.end_toks('select'), 'end-select', level, unit)
            elif k == 'assoc':
                et = self.expr(s[2])[0]
                et[0].pre = ' '
                self.stmt([kw('associate', ''), pu('(', ' '), idt(s[1], ''), T('=>', OP, ' ')] + et + [pu(')')],
                          'assoc', level, unit)
                self.body(s[3], level + 1, unit)
                self.stmt(self.end_toks('associate'), 'end-assoc', level, unit)
            else:
                raise ValueError(s)

    def call_toks(self, s):
        toks = [kw('call', '')]
        nt = self.name_toks('%'.join(s[1]))
        nt[0].pre = ' '
        toks += nt
        if s[2] or self.ch.pick(2) == 0:
            toks.append(pu('(', ' ' if self.L.get('spaces') == 2 and self.ch.pick(2) == 0 else '', glue=True))
            for i, a in enumerate(s[2]):
                if i:
                    toks.append(pu(','))
                at = self.expr(a)[0]
                at[0].pre = ' ' if i else ''
                toks += at
            toks.append(pu(')'))
        return toks

    def assign_toks(self, s):
        lt = self.expr(s[1])[0]
        rt = self.expr(s[2])[0]
        sp = ' ' if self.L.get('spaces', 1) else ''
        rt[0].pre = sp
        return lt + [T('=', OP, sp)] + rt

    # ------------------------------------------------------------------ program units
    def iface(self, it, level, unit):
        self.flush()
        n0 = len(self.out.stmts)
        self._iface(it, level, unit)
        self.flush()
        mine = [s_ for s_ in self.out.stmts[n0:] if s_['tag'] in ('iface-stmt', 'end-iface')]
        self.out.blocks.append({'kind': 'interface', 'name': it[1] if it[0] in ('generic', 'operator') else None,
                                'unit': unit, 'span': [mine[0]['span'][0], mine[-1]['span'][1]]})

    def _iface(self, it, level, unit):
        kind = it[0]
        if kind == 'generic':
            self.stmt([kw('interface', ''), idt(it[1])], 'iface-stmt', level, unit, fact='ifaces', key=it[1])
            form = it[3] if len(it) > 3 else 'module procedure'
            per_line = self.ch.pick(2) == 0
            groups = [[n] for n in it[2]] if per_line else [list(it[2])]
            for g in groups:
                toks = [kw(w, ' ' if i else '') for i, w in enumerate(form.replace('::', '').split())]
                if '::' in form:
                    toks.append(pu('::', ' '))
                for i, n in enumerate(g):
                    if i:
                        toks.append(pu(','))
                    toks.append(idt(n))
                self.stmt(toks, 'modproc', level + 1, unit, fact='ifaces', key=it[1])
            self.stmt(self.end_toks('interface', it[1] if self.ch.pick(2) == 0 else None, 'endjoin_iface'),
                      'end-iface', level, unit, fact='ifaces', key=it[1])
        elif kind == 'operator':
            self.stmt([kw('interface', ''), T(it[1], PUNCT, ' ')], 'iface-stmt', level, unit, fact='ifaces',
                      key=it[1].replace(' ', ''))
            self.stmt([kw('module', ''), kw('procedure')] + [idt(n) for n in it[2]], 'modproc', level + 1, unit,
                      fact='ifaces')
            self.stmt(self.end_toks('interface', None, 'endjoin_iface'), 'end-iface', level, unit, fact='ifaces')
        else:
            head = [kw('abstract', ''), kw('interface')] if kind == 'abstract' else [kw('interface', '')]
            self.stmt(head, 'iface-stmt', level, unit, fact='ifaces')
            for bd in it[1]:
                self.iface_body(bd, level + 1, unit)
            self.stmt(self.end_toks('interface', None, 'endjoin_iface'), 'end-iface', level, unit, fact='ifaces')

    def iface_body(self, bd, level, unit):
        k, name, sig = bd[0], bd[1], bd[2]
        word = 'function' if k == 'fun' else 'subroutine'
        args = {'x': ['x'], 'r': ['r'], 'this': ['this', 'x'], 'fun': ['xin']}[sig]
        toks = [kw(word, ''), idt(name), pu('(')]
        for i, a in enumerate(args):
            if i:
                toks.append(pu(','))
            toks.append(idt(a, ' ' if i else ''))
        toks.append(pu(')'))
        self.stmt(toks, 'iface-body-stmt', level, unit, fact='ifaces', key=name)
        if sig == 'this':
            self.stmt([kw('import', '')] + self.dc() + [idt(bd[3])], 'iface-body-import', level + 1, unit)
            self.stmt(self.decl(self.typ('class', bd[3]), ['this'], [self.intent('inout')]), 'iface-body-decl',
                      level + 1, unit)
            self.stmt(self.decl([kw('integer', '')], ['x'], [self.intent('inout')]), 'iface-body-decl', level + 1, unit)
        elif sig == 'fun':
            self.stmt(self.decl([kw('integer', '')], ['xin'], [self.intent('in')]), 'iface-body-decl', level + 1, unit)
            self.stmt(self.decl([kw('integer', '')], [name]), 'iface-body-decl', level + 1, unit)
        elif sig == 'r':
            self.stmt(self.decl([kw('real', '')], ['r'], [self.intent('inout')]), 'iface-body-decl', level + 1, unit)
        else:
            self.stmt(self.decl([kw('integer', '')], ['x'], [self.intent('inout')]), 'iface-body-decl', level + 1, unit)
        self.stmt(self.end_toks(word, name if self.ch.pick(2) == 0 else None, 'endjoin_unit'), 'iface-body-end', level,
                  unit, fact='ifaces')

    def typedef(self, t, level, unit):
        hdr = [kw('type', '')]
        for a in t['attrs']:
            if a.startswith('extends('):
                gap = ' ' if t.get('extends_spaced') else ''
                hdr += [pu(','), kw('extends'), pu('(', glue=True), T(a[8:-1], ID, gap, glue=True), pu(')', gap, glue=True)]
            else:
                hdr += [pu(','), kw(a)]
        if t['attrs'] or self.L.get('dcolon', True):
            hdr.append(pu('::', ' '))
        hdr.append(idt(t['name']))
        self.flush()
        blk = {'kind': 'typedef', 'name': t['name'], 'unit': unit, 'span': None}
        self.stmt(hdr, 'type-stmt', level, unit, fact='typedefs', key=t['name'])
        self.flush()
        blk['span'] = [self.out.stmts[-1]['span'][0], None]
        for c in t['comps']:
            if c[1] is None:
                self.stmt(self.decl([kw('integer', '')], [c[0]], init=['i', 1]), 'comp-decl', level + 1, unit, join=True)
            else:
                self.stmt(self.decl(self.typ('type', c[1]), [c[0]]), 'comp-decl', level + 1, unit, join=True)
        if t['procs']:
            self.stmt([kw('contains', '')], 'type-contains', level, unit, fact='typedefs')
            for pr in t['procs']:
                if pr[0] == 'generic':
                    toks = [kw('generic', '')] + self.dc(True) + [idt(pr[1]), T('=>', OP, ' ')]
                    for i, tg in enumerate(pr[2]):
                        if i:
                            toks.append(pu(','))
                        toks.append(idt(tg))
                    self.stmt(toks, 'generic-binding', level + 1, unit, fact='typedefs', key=pr[1])
                elif pr[0] == 'final':
                    self.stmt([kw('final', '')] + self.dc() + [idt(pr[1])], 'final-binding', level + 1, unit,
                              fact='typedefs', key=pr[1])
                else:
                    _, bname, tgt, attrs, ifc = pr
                    toks = [kw('procedure', '')]
                    if ifc:
                        toks += [pu('('), idt(ifc, ''), pu(')')]
                    for a in attrs:
                        if '(' in a:
                            toks += [pu(','), kw(a.split('(')[0]), pu('('), idt(a.split('(')[1][:-1], ''), pu(')')]
                        else:
                            toks += [pu(','), kw(a)]
                    # 'procedure <name containing function/subroutine>' without '::' is the trigger of a listed C19 finding
                    kwname = ('function' in bname or 'subroutine' in bname) and not self.L.get('bind_kw_nocolon')
                    toks += self.dc(force=bool(attrs) or bool(tgt) or kwname)
                    toks.append(idt(bname))
                    if tgt:
                        s = ' ' if self.L.get('spaces', 1) else ''
                        toks += [T('=>', OP, s), idt(tgt, s)]
                    self.stmt(toks, 'deferred-binding' if ifc else 'binding', level + 1, unit, fact='typedefs', key=bname)
        self.flush()
        self.stmt(self.end_toks('type', t['name'] if self.ch.pick(3) else None, 'endjoin_type'), 'end-type', level,
                  unit, fact='typedefs')
        self.flush()
        blk['span'][1] = self.out.stmts[-1]['span'][1]
        self.out.blocks.append(blk)

    def routine(self, r, level, path):
        self.flush()
        unit = '/'.join(path + [r['name']])
        start_idx = len(self.out.stmts)
        word = 'function' if r['k'] == 'fun' else 'subroutine'
        sig = r['sig']
        hdr = []
        pre = [kw(w) for pf in r['prefix'] for w in pf.split()]
        typed = []
        if r.get('typed'):
            t = r['typed']
            if '(' in t:
                base, rest = t.split('(', 1)
                typed = [kw(base.strip()), pu('(' + rest, ' ' if base.endswith(' ') else '', glue=True)]
            else:
                typed = [kw(t)]
        hdr = (typed + pre) if r.get('typed_first') else (pre + typed)
        hdr.append(kw(word))
        hdr[0].pre = ''
        args = {'x': ['x'], 'r': ['r'], 'this': ['this', 'x'], 'thisr': ['this', 'r'], 'fun': ['xin'],
                'final': ['this'], 'op': ['opa', 'opb']}[sig]
        hdr += [idt(r['name']), pu('(', ' ' if self.L.get('spaces') == 2 else '')]
        for i, a in enumerate(args):
            if i:
                hdr.append(pu(','))
            hdr.append(idt(a, ' ' if i else ''))
        hdr.append(pu(')'))
        res = r.get('result') or ('opres' if sig == 'op' else None)
        if res:
            hdr += [kw('result'), pu('('), idt(res, ''), pu(')')]
        self.stmt(hdr, 'fun-stmt' if r['k'] == 'fun' else 'sub-stmt', level, unit, fact='units', key=r['name'])
        self.flush()
        first = self.out.stmts[-1]['span'][0]
        for u in r['uses']:
            self.stmt(self.use_toks(u), 'use', level + 1, unit, fact='imports', join=True, key=u['module'])
        self.stmt([kw('implicit', ''), kw('none')], 'implicit', level + 1, unit, join=True)
        integer = [kw('integer', '')]
        if sig in ('this', 'thisr'):
            self.stmt(self.decl(self.typ('class', r['this']), ['this'], [self.intent('inout')]), 'decl', level + 1, unit)
        if sig == 'final':
            self.stmt(self.decl(self.typ('type', r['this']), ['this'], [self.intent('inout')]), 'decl', level + 1, unit)
        if sig == 'op':
            self.stmt(self.decl(self.typ('type', r['this']), ['opa', 'opb'], [self.intent('in')]), 'decl', level + 1, unit)
            self.stmt(self.decl(self.typ('type', r['this']), ['opres']), 'decl', level + 1, unit)
        if sig in ('x', 'this'):
            self.stmt(self.decl(integer, ['x'], [self.intent('inout')]), 'decl', level + 1, unit, join=True)
        if sig in ('r', 'thisr'):
            self.stmt(self.decl([kw('real', '')], ['r'], [self.intent('inout')]), 'decl', level + 1, unit, join=True)
            self.stmt(self.decl(integer, ['xi']), 'decl', level + 1, unit, join=True)
        if sig == 'fun':
            self.stmt(self.decl(integer, ['xin'], [self.intent('in')]), 'decl', level + 1, unit, join=True)
            names = ['x'] + ([] if r.get('typed') else [res or r['name']])
            self.stmt(self.decl(integer, names), 'decl', level + 1, unit, join=True)
        if r['locals']:
            self.stmt(self.decl(integer, r['locals']), 'decl', level + 1, unit, join=True)
        for a in r['arrs']:
            self.stmt(self.decl(integer, [a + '(3)']), 'decl', level + 1, unit, join=True)
        for c in r['chars']:
            self.stmt(self.decl([kw('character', ''), pu('('), kw('len', ''), T('=', OP), T('24', NUM), pu(')')], [c]),
                      'decl', level + 1, unit)
        if _uses_var(r['body'], 'rr'):
            self.stmt(self.decl([kw('real', '')], ['rr']), 'decl', level + 1, unit, join=True)
        for o in r['objs']:
            self.stmt(self.decl(self.typ('type', o[1]), [o[0] + (f'({o[2]})' if o[2] else '')]), 'decl', level + 1, unit,
                      join=True)
        for it in r['ifaces']:
            self.iface(it, level + 1, unit)
        # fixed prologue so that every variable is defined
        pro = []
        if sig == 'fun':
            pro.append(['assign', ['v', 'x'], ['v', 'xin'], {}])
        if sig in ('r', 'thisr'):
            pro.append(['assign', ['v', 'xi'], ['i', 1], {}])
        if sig not in ('final', 'op') and not _is_pure(r):
            for v in r['locals']:
                pro.append(['assign', ['v', v], ['i', 0], {}])
            for a in r['arrs']:
                pro.append(['assign', ['v', a], ['i', 0], {}])
            for c in r['chars']:
                pro.append(['assign', ['v', c], ['s', 'init', "'"], {}])
            if _uses_var(r['body'], 'rr'):
                pro.append(['assign', ['v', 'rr'], ['v', '1.0'], {}])
        # never start a prologue statement with an identifier that starts with 'call' (the generator decides
        # where such statements appear)
        pro = [s for s in pro if not s[1][1].startswith('call')]
        self.body(pro, level + 1, unit)
        self.body(r['body'], level + 1, unit)
        if sig == 'fun' and not _is_pure(r):
            self.body([['assign', ['v', res or r['name']], ['v', 'x'], {}]], level + 1, unit)
        if r['contains']:
            self.stmt([kw('contains', '')], 'contains', level, unit, fact='units')
            for c in r['contains']:
                self.routine(c, level + 1, path + [r['name']])
        if r['end'] == 'bare':
            toks = [kw('end', '')]
        else:
            toks = self.end_toks(word, r['name'] if r['end'] == 'full' else None, 'endjoin_unit')
            if r['end'] == 'full' and len(path) > (1 if self.in_module else 0) and not self.L.get('end_gap'):
                toks[-1].glue = True
                toks[-1].fixed = True
        self.stmt(toks, ('end-fun' if r['k'] == 'fun' else 'end-sub') + ('-bare' if r['end'] == 'bare' else ''), level,
                  unit, fact='units', key=r['name'])
        self.flush()
        self.out.units[unit] = [first, self.out.stmts[-1]['span'][1]]
        _ = start_idx

    def module(self, m):
        self.flush()
        unit = m['name']
        self.stmt([kw('module', ''), idt(m['name'])], 'module-stmt', 0, unit, fact='units', key=m['name'])
        self.flush()
        first = self.out.stmts[-1]['span'][0]
        for u in m['uses']:
            self.stmt(self.use_toks(u), 'use', 1, unit, fact='imports', join=True, key=u['module'])
        self.stmt([kw('implicit', ''), kw('none')], 'implicit', 1, unit, join=True)
        if m['access']:
            self.stmt([kw(m['access'], '')], 'access', 1, unit, join=True)
        if m['access'] == 'private':
            names = [r['name'] for r in m['routines'] if r['sig'] not in ('op',)] + [t['name'] for t in m['types']]
            names += [v[0] for v in m['vars']] + [s[0] for s in m['strs']] + [it[1] for it in m['ifaces'] if it[0] == 'generic']
            names += [bd[1] for it in m['ifaces'] if it[0] == 'abstract' for bd in it[1]]
            toks = [kw('public', '')] + self.dc()
            for i, n in enumerate(names):
                if i:
                    toks.append(pu(','))
                toks.append(idt(n))
            for it in m['ifaces']:
                if it[0] == 'operator':
                    toks += [pu(','), T(it[1], PUNCT, ' ')]
            if names:
                self.stmt(toks, 'access', 1, unit)
        for name, val in m['vars']:
            self.stmt(self.decl([kw('integer', '')], [name], init=['i', val]), 'decl', 1, unit, join=True)
        for name, text in m['strs']:
            q = '"' if self.ch.pick(3) == 0 else "'"
            self.stmt(self.decl([kw('character', ''), pu('('), kw('len', ''), T('=', OP), pu('*'), pu(')')], [name],
                                [[kw('parameter')]], init=['s', text, q]), 'decl', 1, unit)
        for t in m['types']:
            self.typedef(t, 1, unit)
        for it in m['ifaces']:
            self.iface(it, 1, unit)
        if m['routines']:
            self.stmt([kw('contains', '')], 'contains', 0, unit, fact='units')
            for r in m['routines']:
                self.routine(r, 1, [m['name']])
        self.stmt(self.end_toks('module', m['name'] if self.ch.pick(4) else None, 'endjoin_unit'), 'end-module', 0, unit,
                  fact='units')
        self.flush()
        self.out.units[unit] = [first, self.out.stmts[-1]['span'][1]]

    def file(self, model):
        L = self.L
        if L.get('leadcomment'):
            for _ in range(1 + self.ch.pick(2)):
                self.rawline('! ' + COMMENTS[self.ch.pick(len(COMMENTS))], 'comment')
        for i, u in enumerate(model['units']):
            if i and L.get('between') and self.ch.pick(2) == 0:
                self.rawline('', 'blank')
                self.rawline('! ' + COMMENTS[self.ch.pick(len(COMMENTS))], 'comment')
            elif i and L.get('blank'):
                self.rawline('', 'blank')
            self.in_module = u['k'] == 'module'
            if u['k'] == 'module':
                self.module(u)
            else:
                self.routine(u, 0, [])
        if L.get('tailcomment'):
            self.rawline('! ' + COMMENTS[self.ch.pick(len(COMMENTS))], 'comment')
        self.out.text = '\n'.join(self.lines) + '\n'
        self.out.nlines = len(self.lines)
        return self.out


def _callkey(s):
    return '%'.join(part.split('(')[0] for part in s[1])


def _is_pure(r):
    pf = ' '.join(r['prefix'])
    return ('pure' in pf.split() or ('elemental' in pf.split() and 'impure' not in pf.split())
            or r['sig'] in ('final', 'op'))


def _uses_var(body, name):
    import json
    return f'["v", "{name}"]' in json.dumps(body)


def render(model, layout=None):
    return Renderer(layout).file(model)
