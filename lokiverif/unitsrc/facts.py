"""
Facts about a loki ``Sourcefile`` in the JSON shape of gen.truth():
  {'units': [[path, kind]], 'scopes': {path: {'imports', 'typedefs', 'ifaces', 'calls'}},
   'lines': {path: {class: [[first, last] | None per item]}}}      (where the item's node says it is)
Names are lower-cased; paths are '/'-joined unit names (nesting).

Comparison helpers: diff(ref, got, classes) -> [(class, scope, direction, item, lines)].
"""
FACT_CLASSES = ('units', 'imports', 'typedefs', 'ifaces', 'calls')


def _name(s):
    return str(getattr(s, 'name', s)).lower()


def import_fact(i):
    syms = [[_name(s), (getattr(getattr(s, 'type', None), 'use_name', None) or '').lower()] for s in (i.symbols or ())]
    ren = [[_name(v), str(k).lower()] for k, v in (i.rename_list or ())]
    return [str(i.module).lower(), syms, ren]


def typedef_fact(td):
    from loki.ir import nodes as ir, FindNodes
    bs = []
    for pd in FindNodes(ir.ProcedureDeclaration).visit(td.body):
        for s in pd.symbols:
            bn = getattr(s.type, 'bind_names', None)
            flag = 'final' if getattr(pd, 'final', False) else bool(pd.generic)
            bs.append([_name(s), [_name(x) for x in bn] if bn else [], flag])
    return [td.name.lower(), bs]


def iface_fact(i):
    spec = i.spec
    return [str(spec).lower().replace(' ', '') if spec else None, bool(i.abstract),
            [str(s).lower().replace(' ', '') for s in i.symbols]]


def call_name(c):
    n = c.name
    return str(getattr(n, 'name', n)).lower().replace(' ', '')


def _lines(node):
    src = getattr(node, 'source', None)
    if src is None or not src.lines:
        return None
    return [src.lines[0], src.lines[1] if src.lines[1] is not None else src.lines[0]]


def extract(sf):
    from loki import Module
    from loki.ir import nodes as ir, FindNodes
    units, scopes, lines = [], {}, {}

    def unit(u, path):
        pth = path + [u.name.lower()]
        key = '/'.join(pth)
        is_mod = isinstance(u, Module)
        kind = 'module' if is_mod else ('function' if getattr(u, 'is_function', False) else 'subroutine')
        units.append([key, kind])
        d = scopes[key] = {}
        ln = lines[key] = {'unit': _lines(u)}
        spec = u.spec
        imps = [i for i in FindNodes(ir.Import).visit(spec)
                if not getattr(i, 'c_import', False) and not getattr(i, 'f_include', False)
                and not getattr(i, 'f_import', False)] if spec is not None else []
        d['imports'] = [import_fact(i) for i in imps]
        ln['imports'] = [_lines(i) for i in imps]
        tds = list(FindNodes(ir.TypeDef).visit(spec)) if spec is not None else []
        d['typedefs'] = [typedef_fact(td) for td in tds]
        ln['typedefs'] = [_lines(td) for td in tds]
        ifs = list(FindNodes(ir.Interface).visit(spec)) if spec is not None else []
        d['ifaces'] = [iface_fact(i) for i in ifs]
        ln['ifaces'] = [_lines(i) for i in ifs]
        if not is_mod:
            calls = []
            for sec in (u.spec, getattr(u, 'body', None)):
                if sec is not None:
                    calls += list(FindNodes(ir.CallStatement).visit(sec))
            d['calls'] = [call_name(c) for c in calls]
            ln['calls'] = [_lines(c) for c in calls]
        for c in (u.subroutines if is_mod else u.members):
            unit(c, pth)

    for u in sf.ir.body:
        if hasattr(u, 'spec') and hasattr(u, 'contains'):
            unit(u, [])
    return {'units': units, 'scopes': scopes, 'lines': lines}


def find_unit(sf, key):
    u = sf
    for n in key.split('/'):
        u = u[n]
    return u


def _multidiff(ref, got):
    """(missing, spurious) as lists of (item, index in its list) using multiset semantics, deterministic"""
    import json
    rk = [json.dumps(x, sort_keys=True) for x in ref]
    gk = [json.dumps(x, sort_keys=True) for x in got]
    gleft = list(gk)
    missing = []
    for i, k in enumerate(rk):
        if k in gleft:
            gleft.remove(k)
        else:
            missing.append((ref[i], i))
    rleft = list(rk)
    spurious = []
    for i, k in enumerate(gk):
        if k in rleft:
            rleft.remove(k)
        else:
            spurious.append((got[i], i))
    return missing, spurious


def diff(ref, got, classes=FACT_CLASSES, scopes=None):
    """
    differences of ``got`` against ``ref`` restricted to fact classes (and optionally to a set of scopes):
    [(class, scope, direction, item, lines-of-the-item-in-got-or-None)], direction in
    missing | spurious | differs | order
    """
    out = []
    gl = got.get('lines', {})
    if 'units' in classes:
        miss, spur = _multidiff(ref['units'], got['units'])
        mk = {m[0][0]: m for m in miss}
        for (item, i) in spur:
            if item[0] in mk:
                out.append(('units', item[0], 'differs', [mk[item[0]][0], item], gl.get(item[0], {}).get('unit')))
                del mk[item[0]]
            else:
                out.append(('units', item[0], 'spurious', item, gl.get(item[0], {}).get('unit')))
        for m in mk.values():
            out.append(('units', m[0][0], 'missing', m[0], None))
    for key, rs in ref['scopes'].items():
        gs = got['scopes'].get(key)
        if gs is None or (scopes is not None and key not in scopes):
            continue
        for cls in ('imports', 'typedefs', 'ifaces', 'calls'):
            if cls not in classes or cls not in rs:
                continue
            r, g = rs[cls], gs.get(cls, [])
            if r == g:
                continue
            lines = gl.get(key, {}).get(cls) or []
            miss, spur = _multidiff(r, g)
            if not miss and not spur:
                out.append((cls, key, 'order', [r, g], None))
                continue
            mk = {}
            for m in miss:
                mk.setdefault(str(m[0][0]) if cls != 'calls' else None, []).append(m)
            for (item, i) in spur:
                k0 = str(item[0]) if cls != 'calls' else None
                ln = lines[i] if i < len(lines) else None
                if cls != 'calls' and mk.get(k0):
                    m = mk[k0].pop(0)
                    out.append((cls, key, 'differs', [m[0], item], ln))
                else:
                    out.append((cls, key, 'spurious', item, ln))
            for ms in mk.values():
                for m in ms:
                    out.append((cls, key, 'missing', m[0], None))
    return out
