"""
Facts about a loki ``Sourcefile`` in the JSON shape of gen.truth():
  {'units': [[path, kind]], 'scopes': {path: {'imports', 'typedefs', 'ifaces', 'calls'}}}
Names are lower-cased; paths are '/'-joined unit names (nesting).
"""


def _name(s):
    return str(getattr(s, 'name', s)).lower()


def import_fact(i):
    syms = [[_name(s), (getattr(getattr(s, 'type', None), 'use_name', None) or '').lower()] for s in (i.symbols or ())]
    ren = [[_name(v), str(k).lower()] for k, v in (i.rename_list or ())]
    return [str(i.module).lower(), syms, ren]


def typedef_fact(td):
    from loki.ir import nodes as ir, FindNodes
    bs = []
    for pd in FindNodes(ir.ProcedureDeclaration).visit(td.body):
        for s in pd.symbols:
            bn = getattr(s.type, 'bind_names', None)
            flag = 'final' if getattr(pd, 'final', False) else bool(pd.generic)
            bs.append([_name(s), [_name(x) for x in bn] if bn else [], flag])
    return [td.name.lower(), bs]


def iface_fact(i):
    spec = i.spec
    return [str(spec).lower().replace(' ', '') if spec else None, bool(i.abstract),
            [str(s).lower().replace(' ', '') for s in i.symbols]]


def call_name(c):
    n = c.name
    return str(getattr(n, 'name', n)).lower().replace(' ', '')


def extract(sf):
    from loki import Module
    from loki.ir import nodes as ir, FindNodes
    units, scopes = [], {}

    def unit(u, path):
        pth = path + [u.name.lower()]
        key = '/'.join(pth)
        is_mod = isinstance(u, Module)
        kind = 'module' if is_mod else ('function' if getattr(u, 'is_function', False) else 'subroutine')
        units.append([key, kind])
        d = scopes[key] = {}
        spec = u.spec
        d['imports'] = [import_fact(i) for i in FindNodes(ir.Import).visit(spec)
                        if not getattr(i, 'c_import', False) and not getattr(i, 'f_include', False)
                        and not getattr(i, 'f_import', False)] if spec is not None else []
        d['typedefs'] = [typedef_fact(td) for td in FindNodes(ir.TypeDef).visit(spec)] if spec is not None else []
        d['ifaces'] = [iface_fact(i) for i in FindNodes(ir.Interface).visit(spec)] if spec is not None else []
        if not is_mod:
            calls = []
            for sec in (u.spec, getattr(u, 'body', None)):
                if sec is not None:
                    calls += [call_name(c) for c in FindNodes(ir.CallStatement).visit(sec)]
            d['calls'] = calls
        for c in (u.subroutines if is_mod else u.members):
            unit(c, pth)

    for u in sf.ir.body:
        if hasattr(u, 'spec') and hasattr(u, 'contains'):
            unit(u, [])
    return {'units': units, 'scopes': scopes}


def find_unit(sf, key):
    u = sf
    for n in key.split('/'):
        u = u[n]
    return u
