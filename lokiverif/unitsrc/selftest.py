"""python -m lokiverif.unitsrc.selftest [N] [seed]: every generated file must compile with gfortran"""
import os
import shutil
import subprocess
import sys
import tempfile

import hypothesis
from hypothesis import given, settings, HealthCheck, Phase, strategies as st

from .gen import files, layouts, ext_stub_text, truth, DEFAULT_PROFILE
from .render import render


def main(n=60, seed=1, keep=False):
    d = tempfile.mkdtemp(prefix='unitsrc_selftest')
    with open(os.path.join(d, 'ext.f90'), 'w') as f:
        f.write(ext_stub_text())
    pr = subprocess.run(['gfortran', '-c', 'ext.f90'], cwd=d, capture_output=True, text=True)
    assert pr.returncode == 0, pr.stderr
    stats = {'n': 0, 'fail': 0, 'lines': 0}
    fails = []

    @hypothesis.seed(seed)
    @settings(max_examples=n, database=None, deadline=None, suppress_health_check=list(HealthCheck),
              phases=[Phase.generate])
    @given(files(), layouts())
    def run(model, layout):
        r = render(model, layout)
        truth(model)
        with open(os.path.join(d, 'case.f90'), 'w') as f:
            f.write(r.text)
        pr = subprocess.run(['gfortran', '-c', '-fsyntax-only', '-ffree-line-length-none', '-std=f2008', 'case.f90'],
                            cwd=d, capture_output=True, text=True)
        stats['n'] += 1
        stats['lines'] += r.nlines
        if pr.returncode != 0:
            stats['fail'] += 1
            fails.append((pr.stderr, r.text))
    run()
    print(stats)
    for err, text in fails[:3]:
        print('=' * 80)
        print('\n'.join(f'{i + 1:4d} {l}' for i, l in enumerate(text.splitlines())))
        print(err[:3000])
    if not keep:
        shutil.rmtree(d, ignore_errors=True)
    return stats['fail']


if __name__ == '__main__':
    sys.exit(1 if main(int(sys.argv[1]) if len(sys.argv) > 1 else 60, int(sys.argv[2]) if len(sys.argv) > 2 else 1) else 0)
