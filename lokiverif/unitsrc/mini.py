"""Constructors for small hand-written file models (committed replays of known findings are built with these)."""


def routine(name, k='sub', sig=None, **kw):
    r = {'k': k, 'name': name, 'sig': sig or ('fun' if k == 'fun' else 'x'), 'this': None, 'prefix': [], 'typed': None,
         'result': None, 'uses': [], 'ifaces': [], 'locals': ['i1'], 'arrs': [], 'chars': [], 'objs': [], 'body': [],
         'contains': [], 'end': 'full'}
    r.update(kw)
    return r


def module(name, **kw):
    m = {'k': 'module', 'name': name, 'uses': [], 'access': None, 'vars': [], 'strs': [], 'types': [], 'ifaces': [],
         'routines': []}
    m.update(kw)
    return m


def typedef(name, **kw):
    t = {'name': name, 'attrs': [], 'comps': [['n', None]], 'procs': []}
    t.update(kw)
    return t


def use(mod, only=None, renames=(), nature=None):
    return {'module': mod, 'only': only, 'renames': [list(r) for r in renames], 'nature': nature}


def call(*parts, arg='x', **opts):
    return ['call', list(parts), [['v', arg]], dict(opts)]


def assign(name, value=0):
    return ['assign', ['v', name], ['i', value] if isinstance(value, int) else value, {}]


PLAIN = {'stream': [0]}


def case(units, layout=None, history=None):
    return {'model': {'units': list(units)}, 'layout': dict(layout or PLAIN),
            'history': history or {'init': [], 'steps': [], 'perm': [], 'fp': False, 'loss': False}}
