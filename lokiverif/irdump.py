"""
Structural serializer for loki IR and expression trees (independent of fgen and of
loki's visitors): node class, all constructor fields except source bookkeeping,
expressions as (class, init-args) trees with names case-folded, declared types
of declared symbols. Two IRs are "structurally identical" iff their dumps are equal.
"""
import dataclasses

import pymbolic.primitives as pmbl

SKIP_FIELDS = {'source', 'parent', 'symbol_attrs', 'rescope_symbols', 'incomplete', 'ast', '_source', '_incomplete'}


def dump_expr(e, with_types=False, _depth=0):
    if _depth > 200:
        return '<deep>'
    if e is None or isinstance(e, (bool, int, float)):
        return e
    if isinstance(e, str):
        return e
    if isinstance(e, (tuple, list)):
        return [dump_expr(x, with_types, _depth + 1) for x in e]
    if isinstance(e, dict):
        return {str(k).lower(): dump_expr(v, with_types, _depth + 1) for k, v in sorted(e.items(), key=lambda kv: str(kv[0]).lower())}
    from loki.expression import symbols as sym
    if isinstance(e, sym.TypedSymbol) or isinstance(e, sym.MetaSymbol):
        out = [type(e).__name__, e.name.lower()]
        dims = getattr(e, 'dimensions', None)
        if dims:
            out.append(['dims', dump_expr(dims, with_types, _depth + 1)])
        par = getattr(e, 'parent', None)
        if par is not None:
            out.append(['parent', dump_expr(par, False, _depth + 1)])
        if with_types:
            out.append(['type', dump_type(getattr(e, 'type', None), _depth + 1)])
        return out
    if isinstance(e, pmbl.Expression):
        try:
            args = e.__getinitargs__()
        except Exception:  # noqa
            args = (str(e),)
        from loki.expression import StringLiteral
        name = type(e).__name__
        if name in ('StringLiteral',):
            return [name, e.value]
        if name == 'IntrinsicLiteral':
            return [name, str(e.value)]
        if name in ('FloatLiteral',):
            return [name, str(e.value).lower(), dump_expr(e.kind, False, _depth + 1)]
        if name == 'IntLiteral':
            return [name, int(e.value), dump_expr(e.kind, False, _depth + 1)]
        if name == 'LogicLiteral':
            return [name, bool(e.value)]
        return [name] + [dump_expr(a, with_types, _depth + 1) for a in args]
    # datatypes etc.
    return str(e).lower()


def dump_type(t, _depth=0):
    if t is None:
        return None
    out = {}
    d = getattr(t, '__dict__', {})
    for k, v in sorted(d.items()):
        if k.startswith('_') or v is None or v is False:
            continue
        if k == 'dtype':
            out[k] = str(v).lower() if not hasattr(v, 'name') else f'{type(v).__name__}:{str(v.name).lower()}'
        elif k in ('shape', 'kind', 'initial', 'length', 'dimensions', 'bind_names', 'bind_c'):
            out[k] = dump_expr(v, False, _depth + 1)
        elif isinstance(v, (bool, int, str)):
            out[k] = v.lower() if isinstance(v, str) else v
        else:
            out[k] = str(v).lower()
    return out


def dump_ir(node, _depth=0):
    from loki.ir import Node
    from loki.program_unit import ProgramUnit
    if node is None or isinstance(node, (bool, int, float, str)):
        return node.lower() if isinstance(node, str) and False else node
    if isinstance(node, (tuple, list)):
        return [dump_ir(x, _depth + 1) for x in node]
    if isinstance(node, dict):
        return {str(k): dump_ir(v, _depth + 1) for k, v in node.items()}
    if isinstance(node, ProgramUnit):
        out = {'unit': type(node).__name__, 'name': node.name.lower()}
        if hasattr(node, 'arguments'):
            out['args'] = [str(getattr(a, 'name', a)).lower() for a in node._dummies] if hasattr(node, '_dummies') else None
        for sec in ('docstring', 'spec', 'body', 'contains'):
            out[sec] = dump_ir(getattr(node, sec, None), _depth + 1)
        for attr in ('prefix', 'bind', 'is_function', 'result_name'):
            if hasattr(node, attr):
                v = getattr(node, attr)
                out[attr] = dump_expr(v) if not isinstance(v, (bool, str, type(None))) else v
        return out
    if isinstance(node, Node):
        out = {'node': type(node).__name__}
        decl = type(node).__name__ in ('VariableDeclaration', 'ProcedureDeclaration')
        for k, v in node.args.items():
            if k in SKIP_FIELDS:
                continue
            if isinstance(v, (Node, ProgramUnit)) or (isinstance(v, (tuple, list)) and v and all(isinstance(x, (Node, ProgramUnit, tuple)) or x is None for x in v) and any(isinstance(x, (Node, ProgramUnit)) for x in _flat(v))):
                out[k] = dump_ir(v, _depth + 1)
            elif isinstance(v, (tuple, list)) and not v:
                out[k] = []
            elif isinstance(v, (str, bool, int, float, type(None))):
                out[k] = v
            elif isinstance(v, dict) and any(isinstance(x, (Node, ProgramUnit)) for x in _flat(tuple(v.values()))):
                out[k] = dump_ir(v, _depth + 1)
            else:
                out[k] = dump_expr(v, with_types=decl and k == 'symbols')
        return out
    return dump_expr(node)


def _flat(v):
    for x in v:
        if isinstance(x, (tuple, list)):
            yield from _flat(x)
        else:
            yield x


def dump_sourcefile(sf):
    return dump_ir(sf.ir)


def first_difference(a, b, path=''):
    """human-readable first structural difference of two dumps"""
    if type(a) != type(b):
        return f'{path}: {str(a)[:120]!r} != {str(b)[:120]!r}'
    if isinstance(a, dict):
        for k in sorted(set(a) | set(b)):
            if k not in a or k not in b:
                return f'{path}.{k}: only on one side'
            d = first_difference(a[k], b[k], f'{path}.{k}')
            if d:
                return d
        return None
    if isinstance(a, list):
        if len(a) != len(b):
            return f'{path}: length {len(a)} != {len(b)}: {str(a)[:200]} | {str(b)[:200]}'
        for i, (x, y) in enumerate(zip(a, b)):
            d = first_difference(x, y, f'{path}[{i}]')
            if d:
                return d
        return None
    return None if a == b else f'{path}: {a!r} != {b!r}'
