#!/bin/bash
# usage: tools/check_mutant.sh <MUTID> [PROP] [SEED]  - run our quick check against a scratch worktree carrying the seeded change
id=$1; prop=${2:-${id:0:3}}; seed=${3:-1}; d=/tmp/mut/$id; wt=/tmp/chkwt-$id
git -C /repo worktree remove --force $wt 2>/dev/null; git -C /repo worktree add --detach $wt HEAD >/dev/null 2>&1 || exit 2
git -C $wt apply $d/patch.diff || { echo "patch does not apply on $(git -C /repo rev-parse --short HEAD)"; git -C /repo worktree remove --force $wt; exit 2; }
mkdir -p $d/ev
( cd /verif && VERIF_REPO=$wt VERIF_EVIDENCE_DIR=$d/ev timeout 2400 ./check $prop --tier ${TIER:-quick} --seed $seed ${EXTRA} ) > $d/check.log 2>&1; rcc=$?
git -C /repo worktree remove --force $wt
sed -i "s/check=[a-z0-9]*$/check=$rcc/" $d/confirm.txt
echo "$id $prop seed=$seed check=$rcc $(grep -c '^VIOLATION' $d/check.log) violation lines; $(grep -E 'tier=' $d/check.log | grep -o 'evaluations=[0-9]*')" | tee -a /tmp/mut/checks.log
