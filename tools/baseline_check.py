#!/venv/bin/python
"""Run the repository's pinned test suite and compare with /root/.vp/BASELINE.json stable_pass.
usage: tools/baseline_check.py [repo_dir]   (prints tests from stable_pass that did not pass)"""
import json, os, subprocess, sys, tempfile, xml.etree.ElementTree as ET
repo = sys.argv[1] if len(sys.argv) > 1 else '/repo'
b = json.load(open('/root/.vp/BASELINE.json'))
out = tempfile.mktemp(suffix='.junit.xml')
env = dict(os.environ); env.pop('LOKI_VERIF', None)
import shutil
base = tempfile.mkdtemp(prefix='bc-basetemp.')   # private basetemp: other pytest sessions / cleanups cannot interfere
subprocess.run(['/venv/bin/python', '-m', 'pytest', '-q', '-p', 'no:cacheprovider', '--timeout=900',
                '--continue-on-collection-errors', f'--junitxml={out}', f'--basetemp={base}/t'] + sys.argv[2:], cwd=repo, env=env,
               stdout=subprocess.DEVNULL, stderr=subprocess.DEVNULL)
shutil.rmtree(base, ignore_errors=True)
passed = set()
for tc in ET.parse(out).getroot().iter('testcase'):
    if not any(ch.tag in ('failure', 'error', 'skipped') for ch in tc):
        passed.add(f"{tc.get('classname')}::{tc.get('name')}")
os.unlink(out)
missing = sorted(set(b['stable_pass']) - passed)
print(f'passed={len(passed)} stable_pass={len(b["stable_pass"])} missing={len(missing)}')
for m in missing:
    print('  NOT PASSING:', m)
sys.exit(1 if missing else 0)
