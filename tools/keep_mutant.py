#!/venv/bin/python
"""Record a confirmed seeded change under /verif/seeded/<MUTID>/ (patch.diff, demo.py, notes.md, meta.json).
usage: tools/keep_mutant.py <MUTID> <PROP> "<what it needs in order to manifest>" [caught|missed|caught-after-strengthening] ["note"]"""
import json, os, re, shutil, sys
HERE = os.path.dirname(os.path.dirname(os.path.abspath(__file__)))
mid, prop, needs = sys.argv[1:4]
verdict = sys.argv[4] if len(sys.argv) > 4 else None
note = sys.argv[5] if len(sys.argv) > 5 else ''
src = f'/tmp/mut/{mid}'
conf = open(os.path.join(src, 'confirm.txt')).read()
m = re.search(r'RESULT id=\S+ demo_clean=(\S+) demo_mut=(\S+) suite=(\S+) check=(\S+)', conf)
if not m:
    sys.exit('no RESULT line in confirm.txt')
dc, dm, suite, chk = m.groups()
if dc != '0' or dm == '0' or suite != '0':
    sys.exit(f'not a confirmed seeded change: demo_clean={dc} demo_mut={dm} suite={suite}')
dst = os.path.join(HERE, 'seeded', mid)
os.makedirs(dst, exist_ok=True)
for f in ('patch.diff', 'demo.py', 'notes.md'):
    if os.path.exists(os.path.join(src, f)):
        shutil.copy(os.path.join(src, f), dst)
viol = re.findall(r'^VIOLATION .*$', open(os.path.join(src, 'check.log')).read(), re.M) if os.path.exists(os.path.join(src, 'check.log')) else []
meta = {
    'id': mid, 'breaks_property': prop,
    'needs_to_manifest': needs,
    'origin': 'written by a fresh sub-agent that was given only the property text and a scratch worktree of /repo (nothing from /verif)',
    'confirmed_by_lead': {
        'base_commit': re.search(r'base (\S+)', conf).group(1),
        'ran': [
            'git worktree add --detach /tmp/confwt-<id> HEAD (scratch, removed afterwards)',
            'demo.py on the unchanged worktree -> exit 0',
            'git apply patch.diff; demo.py -> exit %s' % dm,
            'tools/baseline_check.py <worktree> (pinned suite, guard off) -> all stable_pass tests passing',
            f'VERIF_REPO=<worktree> ./check {prop} --tier quick --seed 1 -> exit {chk}',
        ],
        'demo_exit_unchanged': int(dc), 'demo_exit_with_patch': int(dm), 'suite_with_patch': 'passes',
    },
    'check_result_quick_seed1': {'exit': chk, 'violation_lines': viol[:5]},
    'verdict': verdict or ('caught' if chk == '1' else 'missed'),
    'note': note,
}
json.dump(meta, open(os.path.join(dst, 'meta.json'), 'w'), indent=1)
print('kept', dst, meta['verdict'])
