"""
Generator self-test (not a registered check): draws cases from the FProg generators, builds the
ORIGINAL program plainly and under two -finit-* settings and reports every case whose output
depends on uninitialised locals (harness.original_reads_undefined). Usage:
  cd /verif && PYTHONPATH=/repo:/repo/lint_rules:/verif /venv/bin/python tools/gen_selftest.py <gen> <n> <seed>
where <gen> is one of gen, gen_arrays, gen_assoc, gen_constprop, gen_loops (modules with cases()).
"""
import importlib, json, sys, os, tempfile
from hypothesis import given, seed, settings, HealthCheck, Phase
from lokiverif.fprog import harness
from lokiverif.fprog.native import make_driver

name, n, sd = sys.argv[1], int(sys.argv[2]), int(sys.argv[3])
os.environ.setdefault('LOKIVERIF_SCRATCH', tempfile.mkdtemp(prefix='gst.'))
mod = importlib.import_module('lokiverif.fprog.' + name)
strategy = mod.cases(mod.profile()) if name == 'gen' else mod.cases()
stats = {'cases': 0, 'traps': 0, 'undefined': 0, 'gen_bug': 0}
bad = []


def body(case):
    stats['cases'] += 1
    try:
        orig = harness.run_original(case, driver=make_driver(case, **(case.get('driver') or {})))
    except harness.GeneratorBug as e:
        stats['gen_bug'] += 1
        bad.append(('genbug', str(e)[:400], case))
        return
    if not orig.ok:
        stats['traps'] += 1
    if harness.original_reads_undefined(orig):
        stats['undefined'] += 1
        bad.append(('undefined', '', case))


t = seed(sd)(settings(max_examples=n, database=None, deadline=None, suppress_health_check=list(HealthCheck),
                      phases=[Phase.generate])(given(strategy)(body)))
t()
print(name, sd, stats)
for i, (k, msg, case) in enumerate(bad[:3]):
    fn = f'/tmp/gst_{name}_{sd}_{i}.json'
    json.dump({'kind': k, 'msg': msg, 'case': case}, open(fn, 'w'))
    print(' ', k, msg[:200], fn)
