#!/venv/bin/python
"""Print the prompt for a seeded-defect sub-agent (property text only; nothing from /verif)."""
import json, os, sys
HERE = os.path.dirname(os.path.dirname(os.path.abspath(__file__)))
pid = sys.argv[1]
variant = sys.argv[2] if len(sys.argv) > 2 else ''
for l in open(os.path.join(HERE, 'properties.jsonl')):
    p = json.loads(l)
    if p['id'] == pid:
        break
else:
    sys.exit('no such property')
text = (f"Title: {p['title']}\nStatement: {p['statement']}\nQuantifier: {p['quantifier']}\n"
        f"Why unit tests cannot settle it: {p['why_tests_cant']}\nAnchored in: {json.dumps(p['anchors'])}")
tpl = open(os.path.join(HERE, 'tools', 'prompts', 'MUTANT_PROMPT.md')).read()
print(tpl.replace('__ID__', pid + variant).replace('__PROPERTY__', text))
