#!/venv/bin/python
"""Regenerate MANIFEST.json from the property modules present in lokiverif/props."""
import importlib, json, os, sys
HERE = os.path.dirname(os.path.dirname(os.path.abspath(__file__)))
sys.path.insert(0, HERE)
props = [json.loads(l) for l in open(os.path.join(HERE, 'properties.jsonl'))]
NA_FILE = os.path.join(HERE, 'tools', 'not_applicable.json')
na_reasons = json.load(open(NA_FILE)) if os.path.exists(NA_FILE) else {}
READY = set(open(os.path.join(HERE, 'tools', 'ready.txt')).read().split())
checks, na = [], []
for p in props:
    pid = p['id']
    path = os.path.join(HERE, 'lokiverif', 'props', pid.lower() + '.py')
    if not os.path.exists(path) or pid in na_reasons or pid not in READY:
        if os.path.exists(path) and pid not in na_reasons:
            reason = (f'not claimed yet: a draft check exists (lokiverif/props/{pid.lower()}.py, run with ./check {pid}) but on the unchanged '
                      'tree it still reports failure signatures that have not been triaged into repository defect vs. oracle error '
                      '(DESIGN.md section 9); it stays unregistered until it is quiet and sound')
        else:
            reason = na_reasons.get(pid, 'check not built yet; planned in DESIGN.md section 3')
        na.append({'property_id': pid, 'reason': reason})
        continue
    src = open(path).read()
    ns = {}
    # metadata constants are plain literals at module top; evaluate them without importing loki
    import ast
    tree = ast.parse(src)
    for node in tree.body:
        if isinstance(node, ast.Assign) and len(node.targets) == 1 and isinstance(node.targets[0], ast.Name):
            name = node.targets[0].id
            if name in ('ID', 'LEVEL', 'TECHNIQUE', 'RULE', 'ASSUMPTIONS', 'LEVEL_TEXT', 'DESIGN_REF'):
                try:
                    ns[name] = ast.literal_eval(node.value)
                except Exception:
                    pass
    checks.append({
        'property_id': pid,
        'quick_cmd': f'./check {pid} --tier quick',
        'thorough_cmd': f'./check {pid} --tier thorough',
        'evidence_file': f'evidence/{pid}.json',
        'replay_cmd_template': f'./check {pid} --replay {{path}}',
        'engine': 'lokiverif',
        'level_claimed': {
            'category': ns.get('LEVEL', 'exploration'),
            'text': ns.get('LEVEL_TEXT', 'Generated-input search against an explicit oracle: ' + ns.get('TECHNIQUE', '') +
                           '. Establishes that no counterexample exists among the explored cases (counts in the evidence file); it is not a proof of absence.'),
            'design_ref': ns.get('DESIGN_REF', f'DESIGN.md section 3, {pid}'),
        },
        'level_note': '; '.join(ns.get('ASSUMPTIONS', [])) or 'oracle and generator as described in DESIGN.md',
        'technique': ns.get('TECHNIQUE', 'property-based testing'),
    })
manifest = {
    'version': 1,
    'setup_cmd': './setup.sh',
    'hooks': {
        'guard': 'LOKI_VERIF',
        'enable': 'no source hooks are needed: checks import loki from the /repo working tree via PYTHONPATH (set by ./check); LOKI_VERIF=1 is exported but unused by loki',
        'baseline_off_cmd': 'cd /repo && /venv/bin/python -m pytest -ra -q -p no:cacheprovider --timeout=900 --continue-on-collection-errors',
        'source_commits': [],
        'add_only': True,
    },
    'engines': [{'name': 'lokiverif', 'path': 'lokiverif/', 'serves_properties': [c['property_id'] for c in checks],
                 'kind_free_text': 'hypothesis-driven property-based testing / enumeration harness with reference models, differential gfortran execution and metamorphic oracles'}],
    'checks': checks,
    'not_applicable': na,
    'notes': 'All checks: ./check <ID> --tier quick|thorough; VERIF_SEED and VERIF_TIER are honoured; exit 2 = harness error. fix: commits in /repo are listed in KNOWN_FINDINGS.txt.',
}
json.dump(manifest, open(os.path.join(HERE, 'MANIFEST.json'), 'w'), indent=1)
print(f'{len(checks)} checks, {len(na)} not claimed')
