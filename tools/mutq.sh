#!/bin/bash
# Sequential confirmation queue: lines "<MUTID> [PROP]" appended to /tmp/mut/queue.txt are processed in order.
q=/tmp/mut/queue.txt; done=/tmp/mut/queue.done; touch $q $done
while true; do
  next=$(grep -vxFf $done $q | head -1)
  if [ -z "$next" ]; then sleep 20; continue; fi
  SUITE_N=${SUITE_N:-4} /verif/tools/confirm_mutant.sh $next > /dev/null 2>&1
  echo "$next" >> $done
done
