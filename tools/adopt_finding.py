#!/venv/bin/python
"""tools/adopt_finding.py <ID> <found replay json> <slug> <what fails...>  -> copies replay to replays/<ID>/<slug>.json
and appends a `known:` line to known_findings.d/<ID>.txt"""
import json, os, shutil, sys
HERE = os.path.dirname(os.path.dirname(os.path.abspath(__file__)))
pid, src, slug = sys.argv[1:4]
what = ' '.join(sys.argv[4:])
d = json.load(open(src))
dst = os.path.join(HERE, 'replays', pid, slug + '.json')
os.makedirs(os.path.dirname(dst), exist_ok=True)
json.dump({'property': pid, 'sig': d['sig'], 'case': d['case'], 'detail': d.get('detail', '')}, open(dst, 'w'), indent=1, sort_keys=True)
os.makedirs(os.path.join(HERE, 'known_findings.d'), exist_ok=True)
with open(os.path.join(HERE, 'known_findings.d', pid + '.txt'), 'a') as f:
    f.write(f"known: property={pid} sig={d['sig']} replay=replays/{pid}/{slug}.json {what}\n")
print('adopted', d['sig'])
