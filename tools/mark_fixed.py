#!/venv/bin/python
"""Turn a `known:` line into a `fixed:` line after the defect was repaired in /repo.
usage: tools/mark_fixed.py <PROP> <signature> <repo commit>"""
import os, re, sys
HERE = os.path.dirname(os.path.dirname(os.path.abspath(__file__)))
prop, sig, commit = sys.argv[1:4]
path = os.path.join(HERE, 'known_findings.d', f'{prop}.txt')
out, hit = [], 0
for line in open(path):
    m = re.match(r'known:\s+property=(\S+)\s+sig=(\S+)\s+replay=(\S+)\s*(.*)$', line.strip())
    if m and m.group(1) == prop and m.group(2) == sig:
        what = re.sub(r'\s*[\[(]fix proposed[^\])]*[\])]', '', m.group(4))
        out.append(f'fixed: property={prop} {commit} replay={m.group(3)} {what} (was sig={sig})\n')
        hit += 1
    else:
        out.append(line)
if hit != 1:
    sys.exit(f'{hit} lines matched {sig!r} in {path}')
open(path, 'w').writelines(out)
print('marked fixed:', prop, sig, commit)
