#!/bin/bash
# usage: tools/confirm_mutant.sh <MUTID> [PROP]   (MUTID = directory name under /tmp/mut, e.g. C10 or C10b)
# Confirms a seeded defect in a scratch worktree: demo passes on the unchanged tree, fails with the
# patch, the pinned test suite still passes with the patch; then runs our check against the mutated tree.
id=$1; prop=${2:-${id:0:3}}; d=/tmp/mut/$id; wt=/tmp/confwt-$id; out=$d/confirm.txt
[ -f $d/patch.diff ] && [ -f $d/demo.py ] || { echo "missing deliverables in $d"; exit 2; }
git -C /repo worktree remove --force $wt 2>/dev/null
git -C /repo worktree add --detach $wt HEAD >/dev/null 2>&1 || exit 2
rundemo() { ( cd $wt && PYTHONPATH=$wt:$wt/lint_rules PYTHONDONTWRITEBYTECODE=1 timeout 600 /venv/bin/python $d/demo.py ) > $d/demo.$1.log 2>&1; echo $?; }
{
echo "mutant $id property $prop base $(git -C /repo rev-parse --short HEAD) $(date -u +%FT%TZ)"
rc0=$(rundemo clean); echo "demo on unchanged tree: exit $rc0"
if ! git -C $wt apply $d/patch.diff; then echo "patch does not apply"; git -C /repo worktree remove --force $wt; exit 2; fi
rc1=$(rundemo mutated); echo "demo on mutated tree: exit $rc1"
if [ "$SKIP_SUITE" != 1 ]; then
  /venv/bin/python /verif/tools/baseline_check.py $wt -n ${SUITE_N:-6} > $d/suite.log 2>&1; rcs=$?
  echo "suite with patch: rc=$rcs $(head -1 $d/suite.log)"; grep "NOT PASSING" $d/suite.log | head -5
else rcs=skipped; echo "suite skipped"; fi
if [ -f /verif/lokiverif/props/${prop,,}.py ]; then
  mkdir -p $d/ev
  ( cd /verif && VERIF_REPO=$wt VERIF_EVIDENCE_DIR=$d/ev timeout 1800 ./check $prop --tier quick --seed ${SEED:-1} ) > $d/check.log 2>&1; rcc=$?
  echo "our check $prop on mutated tree: exit $rcc"; grep -E "^(VIOLATION|HARNESS)" $d/check.log | head -5
else echo "no check for $prop yet"; rcc=none; fi
echo "RESULT id=$id demo_clean=$rc0 demo_mut=$rc1 suite=$rcs check=$rcc"
} 2>&1 | tee $out
git -C /repo worktree remove --force $wt
