#!/bin/bash
# usage: tools/confirm_batch.sh <MUTID>...   Confirms several seeded changes that touch disjoint files with ONE run of the
# pinned suite: each demo is run on the unchanged tree and with only its own patch; then all patches are applied together
# and the suite is run once (a test that fails under one patch alone also fails under the union of independent patches).
wt=/tmp/confwt-batch.$$; git -C /repo worktree add --detach $wt HEAD >/dev/null 2>&1 || exit 2
ids="$@"; ok=""
for id in $ids; do d=/tmp/mut/$id
  rundemo() { ( cd $wt && PYTHONPATH=$wt:$wt/lint_rules PYTHONDONTWRITEBYTECODE=1 timeout 900 /venv/bin/python $d/demo.py ) > $d/demo.$1.log 2>&1; echo $?; }
  rc0=$(rundemo clean)
  if ! git -C $wt apply $d/patch.diff 2>/dev/null; then echo "$id: patch does not apply" | tee $d/confirm.txt; continue; fi
  rc1=$(rundemo mutated); git -C $wt checkout -q -- . 
  echo "mutant $id base $(git -C /repo rev-parse --short HEAD) demo_clean=$rc0 demo_mut=$rc1" | tee $d/confirm.txt
  [ "$rc0" = 0 ] && [ "$rc1" != 0 ] && ok="$ok $id"
done
applied=""
for id in $ok; do if git -C $wt apply /tmp/mut/$id/patch.diff 2>/dev/null; then applied="$applied $id"; else echo "$id: conflicts with earlier patches in this batch, left out" ; fi; done
/venv/bin/python /verif/tools/baseline_check.py $wt -n ${SUITE_N:-6} > /tmp/mut/suite-batch.$$.log 2>&1; rcs=$?
echo "suite with patches [$applied ]: rc=$rcs $(head -1 /tmp/mut/suite-batch.$$.log)"
for id in $applied; do d=/tmp/mut/$id; cp /tmp/mut/suite-batch.$$.log $d/suite.log
  echo "suite with patch (applied together with:$applied): rc=$rcs $(head -1 $d/suite.log)" >> $d/confirm.txt
  rc0=$(grep -o "demo_clean=[0-9]*" $d/confirm.txt | cut -d= -f2); rc1=$(grep -o "demo_mut=[0-9]*" $d/confirm.txt | cut -d= -f2)
  echo "RESULT id=$id demo_clean=$rc0 demo_mut=$rc1 suite=$rcs check=pending" >> $d/confirm.txt
done
git -C /repo worktree remove --force $wt
